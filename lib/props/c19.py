"""C19 - benchmark class configurations always produce valid requests."""
import json
import os
import re
import vlib

THEOREMS = [
    "C19_request_valid", "C19_request_slot_configured", "C19_request_slot_configured_nodup",
    "C19_request_oracle", "C19_old_refuted", "C19_dup_ids_refuted",
    "C19_hyp_nonempty_needed", "C19_hyp_cores_needed",
    "C19_example_hyps", "C19_example_requests", "C19_example_one_repaired",
]
HARNESS_EVAL = os.path.join(vlib.ROOT, "harness-eval")
TARGET_EVAL = os.path.join(vlib.TARGET, "eval")


def build_harness_eval(ctx):
    """cargo build of harness-eval (needs /repo/eval and its dependency tree) against /repo's working tree."""
    cmd = ["cargo", "build", "--release", "--offline", "--bin", "classrun"]
    with vlib.Lock("cargo-eval"):
        rc, out = vlib.sh(cmd, cwd=HARNESS_EVAL, timeout=3000, env={"CARGO_TARGET_DIR": TARGET_EVAL})
    if rc != 0:
        ctx.notes.append("harness-eval build failed: " + out[-3000:])
        return None
    return os.path.join(TARGET_EVAL, "release")


# ---------------------------------------------------------------- failing inputs
def parse_where(text):
    """cfgno / cores / query of a MISMATCH text written by driver/classes.ml"""
    m = re.search(r"cfgno=(\d+) cfg=(\S+) cores=(\d+)(?: q=(\d+),(\d+),(\d+),([0-9a-f]+))?", text)
    if not m:
        return None
    d = {"cfgno": int(m.group(1)), "label": m.group(2), "cores": int(m.group(3))}
    if m.group(4) is not None:
        d.update(order=int(m.group(4)), core=int(m.group(5)), pid=int(m.group(6)), gfp=int(m.group(7), 16))
    return d


def config_json(transcript, cfgno):
    n = 0
    want = False
    with open(transcript) as fh:
        for ln in fh:
            if ln.startswith("CFG "):
                n += 1
                want = n == cfgno
            elif want and ln.startswith("J "):
                return ln[2:].strip()
    return None


def replay_lines(cfg_text, w):
    lines = ["# re-run on the current implementation: ./check C19 --replay <this file>",
             "# J = class configuration (JSON as read by facet_json), K = core count, Q = order core pid gfp(hex)",
             "J " + cfg_text, "K %d" % w["cores"]]
    if "order" in w:
        lines.append("Q %d %d %d %x" % (w["order"], w["core"], w["pid"], w["gfp"]))
    return lines


def category(text):
    for pat in ("slot index", "not a configured", "no entry", "request panicked", "classing panicked", "LLFree panicked"):
        if pat in text:
            return pat
    return "other"


class Shrinker:
    """Greedy reduction of a failing (configuration, cores, query): fewest classes first, then the
    simplest matchers, then the smallest numbers.  `fails` re-runs classrun --replay and the driver."""

    def __init__(self, ctx, rel, exe, kind):
        self.ctx, self.rel, self.exe, self.kind = ctx, rel, exe, kind
        self.calls = 0

    def fails(self, cfg, w):
        self.calls += 1
        rp = self.ctx.path("shrink-in.txt")
        tr = self.ctx.path("shrink-tr.txt")
        with open(rp, "w") as fh:
            fh.write("\n".join(replay_lines(json.dumps(cfg), w)) + "\n")
        rc, _ = vlib.sh([os.path.join(self.rel, "classrun"), "--replay", rp, "--out", tr], timeout=120)
        if rc != 0:
            return None
        mism, _ = vlib.run_driver(self.ctx, self.exe, "classes", tr)
        for k, text in mism:
            if k == self.kind:
                return text
        return None

    def shrink(self, cfg, w):
        text = self.fails(cfg, w)
        if text is None:
            return None

        def attempt(c2, w2):
            nonlocal cfg, w, text
            if self.calls > 400:
                return False
            t = self.fails(c2, w2)
            if t is not None:
                cfg, w, text = c2, w2, t
                return True
            return False

        # 1. fewest classes
        changed = True
        while changed:
            changed = False
            for i in range(len(cfg["classes"])):
                if len(cfg["classes"]) <= 1:
                    break
                c2 = json.loads(json.dumps(cfg))
                del c2["classes"][i]
                c2["default"] = c2["classes"][-1]["id"]
                if attempt(c2, w):
                    changed = True
                    break
        # 2. simplest matchers, smallest ids
        for i in range(len(cfg["classes"])):
            for key, val in (("gfp", None), ("order", None), ("id", i)):
                c2 = json.loads(json.dumps(cfg))
                if key == "gfp":
                    c2["classes"][i].pop("gfp", None)
                else:
                    c2["classes"][i][key] = val
                c2["default"] = c2["classes"][-1]["id"]
                if c2 != cfg:
                    attempt(c2, w)
        # 3. smallest numbers
        for key in ("cores", "order", "gfp", "core", "pid"):
            if key not in w:
                continue
            lo = 1 if key == "cores" else 0
            for v in range(lo, min(w[key], lo + 70)):
                w2 = dict(w)
                w2[key] = v
                if attempt(cfg, w2):
                    break
        return cfg, w, text


def run(ctx):
    proofs_ok = vlib.coq_prove(ctx, os.path.join(vlib.COQ, "Properties", "C19.v"), THEOREMS)
    oracle, corr = [], []
    exe = vlib.build_driver(ctx, "classes")
    rel = build_harness_eval(ctx) if exe else None
    if rel is None:
        corr.append(("build failed", ctx.notes[-1:]))
    else:
        tr = ctx.path("classes.txt")
        cmd = [os.path.join(rel, "classrun"), "--out", tr]
        if ctx.replay:
            cmd += ["--replay", ctx.replay]
        else:
            cmd += ["--seed", str(ctx.seed), "--level", "0" if ctx.quick else "1",
                    "--random", "200" if ctx.quick else "4000"]
        rc, out = vlib.sh(cmd, timeout=3000)
        if rc != 0:
            corr.append(("classrun failed rc=%d" % rc, [out[-500:]]))
        mism, summ = vlib.run_driver(ctx, exe, "classes", tr)
        hist = {k: v for k, v in summ.items() if re.match(r"(kind|classes|cores)_", k)}
        ctx.suites.append({
            "suite": "classrun: compiled ClassingConfig::{classing,request} vs extracted request/classing_counts "
                     "(correspondence) and req_valid_b on the implementation's own classing() slot counts (oracle); "
                     "every request used (get+put) on an LLFree built with that classing",
            "evaluations": summ.get("evaluations", 0), "distinct": summ.get("distinct", 0),
            "configurations": summ.get("configs", 0),
            "requests_fell_through_to_classes0": summ.get("fell_through", 0),
            "local_some": summ.get("local_some", 0), "local_none": summ.get("local_none", 0),
            "used_ok": summ.get("used_ok", 0), "used_err": summ.get("used_err", 0), "used_panic": summ.get("used_panic", 0),
            "outside_hypotheses_corr_only": summ.get("outside_hypotheses", 0),
            "requests_by_kind": {k[5:]: v for k, v in hist.items() if k.startswith("kind_")},
            "configurations_by_number_of_classes": {k[8:]: v for k, v in hist.items() if k.startswith("classes_")},
            "classings_by_cores": {k[6:]: v for k, v in hist.items() if k.startswith("cores_")},
            "non_index_panics_while_using_valid_requests": summ.get("note", 0),
        })
        # ---- failures: one (shrunk) representative per category
        seen = set()
        notes = [t for k, t in mism if k == "NOTE"]
        if notes:
            ctx.notes.append("%d panic(s) while USING valid requests that are not slot-index panics (not a C19 violation, "
                             "allocator robustness): first: %s" % (summ.get("note", len(notes)), notes[0][:300]))
        hyps = [t for k, t in mism if k == "HYP"]
        if hyps:
            ctx.notes.append("%d invalid request(s) for configurations OUTSIDE the theorem's hypotheses (duplicate class ids "
                             "with different kinds; not counted as a C19 violation): first: %s" % (summ.get("hyp", len(hyps)), hyps[0][:300]))
        for kind, text in mism:
            if kind in ("NOTE", "HYP"):
                continue
            dest = oracle if kind == "ORACLE" else corr
            cat = (kind, category(text))
            if cat in seen:
                continue
            seen.add(cat)
            w = parse_where(text)
            cfg_text = config_json(tr, w["cfgno"]) if w else None
            if not cfg_text:
                dest.append((text, ["# no input could be reconstructed for this failure"]))
                continue
            lines = replay_lines(cfg_text, w)
            if kind == "ORACLE" and "order" in w:
                try:
                    res = Shrinker(ctx, rel, exe, "ORACLE").shrink(json.loads(cfg_text), w)
                except Exception as ex:  # shrinking is best effort
                    ctx.notes.append("shrink failed: %r" % ex)
                    res = None
                if res:
                    cfg, w2, text2 = res
                    lines = ["# minimal failing input (shrunk from cfg=%s)" % w["label"]] + replay_lines(json.dumps(cfg), w2)
                    text = text2
            dest.append((text, lines))
        # ---- samples
        want = {"CFG": 2, "C": 3, "K": 2, "Q": 6}
        with open(tr) as fh:
            for i, ln in enumerate(fh):
                t = ln.split(" ", 1)[0]
                if t in want and want[t] > 0 and (t != "Q" or i % 9973 == 12 or i < 40):
                    want[t] -= 1
                    ctx.samples.append(ln.strip()[:200])
                if i > 2000000 or not any(want.values()):
                    break
    vlib.classify(ctx, proofs_ok, oracle, corr, name="classrun")
    return vlib.finish(
        ctx,
        "Theorem for every class configuration with at least one class, every order, core, pid, gfp and cores >= 1: the modelled "
        "(repaired, One => Some(0)) request names the id of the entry it was generated from and no slot or a slot below "
        "to_count(kind, cores); under ids < 8, <= 8 classes and consistent kinds per id that is the slot count of the allocator "
        "(Classing::new/Locals::new model). The model is tied to the compiled ClassingConfig by running both on the same inputs; "
        "the oracle checks the compiled results against the compiled classing() and by using them on a real LLFree.",
        "configurations: every results/classes*.json; all 5^n slot-count-kind tuples for n = 1..4 classes (shipped-style GFP "
        "partitions and random order ranges / nested all/any/not matchers); seeded random 1..8-class configurations (ids 0..7, "
        "repeated ids only with the same kind); each at cores 1..16 with a core sweep and a pid sweep 0..64 (+ boundary values), "
        "and an order 0..12 x GFP-value grid; plus cores = 0, empty and 9-class configurations for the panic correspondence only. "
        "non-trivial = the request carries a slot index (local = Some); distinct = distinct (configuration, cores, order, core, pid, gfp)")
