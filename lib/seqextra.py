"""Sequential histories as an additional suite of a property whose main suites are concurrent."""
import seqcommon
from props import _seqplans


def seq_extra(corr, oracle, text_filter=None, quick_hist=100, thorough_hist=2000):
    def run(ctx):
        quick, thorough = _seqplans.plans(quick_hist=quick_hist, thorough_hist=thorough_hist)
        o_fail, c_fail, mism = [], [], []
        for p in (quick if ctx.quick else thorough[:2]):
            m, summ, _ = seqcommon.run_suite(ctx, p["suite"], features=tuple(p.get("features", ())), histories=p.get("histories", 100),
                                             ops=p.get("ops", 150), extra_args=p.get("extra_args", ()))
            ctx.suites.append(seqcommon.suite_record("seq/" + p["suite"], p.get("desc", ""), summ))
            o, c = seqcommon.select(m, corr=corr, oracle=oracle)
            if text_filter:
                o = [x for x in o if text_filter(x[1])]
            mism += o + c
        for kind, (t, lines) in seqcommon.shrink_groups(ctx, mism).items():
            (o_fail if kind.startswith("ORACLE") else c_fail).append((kind + " " + t, lines))
        return o_fail, c_fail
    return run


def seq_suites(plans, corr, oracle):
    """plans = [quick plan dict, thorough plan dict] of one seqrun suite."""
    def run(ctx):
        p = plans[0] if ctx.quick else plans[1]
        o_fail, c_fail = [], []
        m, summ, _ = seqcommon.run_suite(ctx, p["suite"], histories=p.get("histories", 100), ops=p.get("ops", 150),
                                         extra_args=p.get("extra_args", ()))
        ctx.suites.append(seqcommon.suite_record("seq/" + p["suite"], p.get("desc", "sequential histories with crash+recover at quiescent points"), summ))
        o, c = seqcommon.select(m, corr=corr, oracle=oracle)
        for kind, (t, lines) in seqcommon.shrink_groups(ctx, o + c).items():
            (o_fail if kind.startswith("ORACLE") else c_fail).append((kind + " " + t, lines))
        return o_fail, c_fail
    return run


def chain(*extras):
    """Compose `extra` callables of seqprop.run: each is ctx -> (oracle_fail, corr_fail); results are concatenated."""
    def run(ctx):
        o_fail, c_fail = [], []
        for f in extras:
            if f is None:
                continue
            o, c = f(ctx)
            o_fail += o
            c_fail += c
        return o_fail, c_fail
    return run
