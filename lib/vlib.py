"""Common machinery of ./check: builds (Coq, extraction + OCaml driver, Rust harness), proof audit,
driver invocation, classification of failures, evidence and replay files.  Python stdlib only."""
import fcntl
import json
import os
import re
import shutil
import subprocess
import sys
import time

ROOT = os.path.dirname(os.path.dirname(os.path.abspath(__file__)))
COQ = os.path.join(ROOT, "coq")
DRIVER_DIR = os.path.join(ROOT, "driver")
HARNESS = os.path.join(ROOT, "harness")
TARGET = os.path.join(ROOT, "target")
WORK = os.path.join(ROOT, "work")
REPLAYS = os.path.join(ROOT, "replays")
EVIDENCE = os.path.join(ROOT, "evidence")
REPO = "/repo"
NPROC = os.cpu_count() or 4

FORBIDDEN = re.compile(
    r"\b(Admitted|admit|Axiom|Axioms|Parameter|Parameters|Conjecture|Conjectures|Hypothesis|Hypotheses|Variable|Variables)\b"
    r"|Unset\s+Guard|Unset\s+Positivity|Unset\s+Universe|bypass_check|type-in-type|impredicative-set|Admit\s+Obligations"
)

TRUSTED_BASE = [
    "Coq 8.16.1 kernel (coqc; vm_compute used inside finite-sweep proofs; native_compute not used)",
    "axioms: none (Print Assumptions of every property theorem must print 'Closed under the global context')",
    "extraction: ExtrOcamlBasic only (bool/option/list/prod/unit/sumbool mapped to OCaml), no Extract Constant/Inductive of our own; OCaml 4.13.1",
    "hand-written OCaml driver (transcript parsing, comparison) and Rust harness (generators, canonical dumps, cargo feature 'verif' hooks)",
    "the Gallina model is hand-written: all Rust code is modelled, not verified; the tie is the correspondence run of this check",
]


class Lock:
    def __init__(self, name):
        os.makedirs(WORK, exist_ok=True)
        self.path = os.path.join(WORK, name + ".lock")

    def __enter__(self):
        self.f = open(self.path, "w")
        fcntl.flock(self.f, fcntl.LOCK_EX)

    def __exit__(self, *a):
        fcntl.flock(self.f, fcntl.LOCK_UN)
        self.f.close()


def sh(cmd, cwd=None, timeout=3600, env=None):
    e = dict(os.environ)
    e.update({"CARGO_NET_OFFLINE": "true", "LC_ALL": "C"})
    if env:
        e.update(env)
    try:
        p = subprocess.run(cmd, cwd=cwd, env=e, stdout=subprocess.PIPE, stderr=subprocess.STDOUT, timeout=timeout,
                           shell=isinstance(cmd, str))
        return p.returncode, p.stdout.decode("utf-8", "replace")
    except subprocess.TimeoutExpired as ex:
        return 124, (ex.stdout or b"").decode("utf-8", "replace") + "\nTIMEOUT"


class Ctx:
    def __init__(self, pid, tier, seed):
        self.pid = pid
        self.tier = tier
        self.seed = seed
        self.t0 = time.time()
        self.work = os.path.join(WORK, pid)
        shutil.rmtree(self.work, ignore_errors=True)
        os.makedirs(self.work, exist_ok=True)
        os.makedirs(REPLAYS, exist_ok=True)
        os.makedirs(EVIDENCE, exist_ok=True)
        self.proof = {"obligations": [], "discharged": [], "failed": [], "log": ""}
        self.suites = []          # dicts with counts per suite
        self.violations = []      # (replay_path, text, no_input)
        self.known = []           # text lines
        self.notes = []
        self.samples = []
        self.quick = tier == "quick"

    def path(self, name):
        return os.path.join(self.work, name)

    def log(self, *a):
        print(*a, flush=True)


# ---------------------------------------------------------------- Coq
def coq_files():
    out = []
    for d, _, fs in os.walk(COQ):
        for f in fs:
            if f.endswith(".v"):
                out.append(os.path.join(d, f))
    return sorted(out)


def strip_comments(src):
    out, depth, i = [], 0, 0
    while i < len(src):
        if src.startswith("(*", i):
            depth += 1
            i += 2
        elif src.startswith("*)", i) and depth > 0:
            depth -= 1
            i += 2
        else:
            if depth == 0:
                out.append(src[i])
            i += 1
    return "".join(out)


def coq_deps(vfile):
    """Transitive LLF dependencies of a .v file (by scanning Require lines)."""
    seen, todo = set(), [vfile]
    while todo:
        f = todo.pop()
        if f in seen or not os.path.exists(f):
            continue
        seen.add(f)
        src = strip_comments(open(f).read())
        for m in re.finditer(r"From\s+LLF\s+Require\s+(?:Import|Export)\s+([^.]*)\.", src):
            for name in m.group(1).split():
                todo.append(os.path.join(COQ, name.replace(".", "/") + ".v"))
    return sorted(seen)


def coq_prove(ctx, prop_file, theorems):
    """Build the property's theorem file and everything it depends on, then audit it:
    forbidden words in the dependency closure, Print Assumptions of each named theorem."""
    ctx.proof["obligations"] = list(theorems)
    rel = os.path.relpath(prop_file, COQ)
    vo = rel[:-2] + ".vo"
    with Lock("coq"):
        gen_coqproject()
        # the theorem file itself is always recompiled so that Print Assumptions output is fresh
        for ext in (".vo", ".glob", ".vos", ".vok"):
            try:
                os.remove(os.path.join(COQ, rel[:-2] + ext))
            except FileNotFoundError:
                pass
        rc, out = sh(["make", "-j%d" % NPROC, vo], cwd=COQ, timeout=3000)
    ctx.proof["log"] = out[-4000:]
    if rc != 0:
        ctx.proof["failed"] = list(theorems)
        ctx.notes.append("coq build failed for %s" % rel)
        return False
    ok = True
    # forbidden constructs anywhere in the dependency closure
    for f in coq_deps(prop_file):
        src = strip_comments(open(f).read())
        # Section-local Variable/Hypothesis/Context are allowed only inside a Section
        depth = 0
        for ln in src.split("\n"):
            s = ln.strip()
            if re.match(r"Section\s", s):
                depth += 1
            if re.match(r"End\s", s) and depth > 0:
                depth -= 1
            m = FORBIDDEN.search(ln)
            if m:
                w = m.group(0)
                if w.startswith(("Variable", "Hypothes")) and depth > 0:
                    continue
                ctx.notes.append("forbidden construct %r in %s: %s" % (w, os.path.relpath(f, COQ), s[:80]))
                ok = False
    # Print Assumptions output: "Closed under the global context" once per theorem
    closed = out.count("Closed under the global context")
    axioms = re.findall(r"Axioms:\s*\n((?:.+\n)+)", out)
    if axioms:
        ctx.notes.append("Print Assumptions reports axioms: %s" % axioms[0][:300])
        ok = False
    src = strip_comments(open(prop_file).read())
    for t in theorems:
        if not re.search(r"Print\s+Assumptions\s+%s\s*\." % re.escape(t), src):
            ctx.notes.append("no Print Assumptions for %s" % t)
            ok = False
        if not re.search(r"(Theorem|Lemma|Corollary)\s+%s\b" % re.escape(t), src):
            ctx.notes.append("theorem %s not stated in %s" % (t, rel))
            ok = False
    if closed < len(theorems):
        ctx.notes.append("only %d of %d theorems closed under the global context" % (closed, len(theorems)))
        ok = False
    if ok and ctx.tier == "thorough":
        # independent re-check of the compiled theorem file and everything it depends on
        mod = "LLF." + rel[:-2].replace("/", ".")
        with Lock("coq"):
            rc2, out2 = sh(["coqchk", "-silent", "-o", "-Q", ".", "LLF", mod], cwd=COQ, timeout=3000)
        good = rc2 == 0 and "* Axioms: <none>" in out2 and "relying on type-in-type: <none>" in out2 \
            and "unsafe (co)fixpoints: <none>" in out2 and "positivity is assumed: <none>" in out2
        ctx.notes.append("coqchk %s: %s" % (mod, "ok (Axioms: <none>)" if good else "FAILED: " + out2[-600:].replace("\n", " | ")))
        ok = ok and good
    if ok:
        ctx.proof["discharged"] = list(theorems)
    else:
        ctx.proof["failed"] = list(theorems)
    return ok


def coq_prove_multi(ctx, parts):
    """Several theorem files for one property: parts = [(file, [theorems]), ...]."""
    ok, obl, dis, fail, log = True, [], [], [], ""
    for f, thms in parts:
        r = coq_prove(ctx, f, thms)
        ok = ok and r
        obl += ctx.proof["obligations"]
        dis += ctx.proof["discharged"]
        fail += ctx.proof["failed"]
        log += ctx.proof["log"][-1500:]
    ctx.proof = {"obligations": obl, "discharged": dis, "failed": fail, "log": log}
    return ok


def coqchk(ctx, modules):
    with Lock("coq"):
        rc, out = sh(["coqchk", "-silent", "-o", "-Q", ".", "LLF"] + modules, cwd=COQ, timeout=3000)
    ctx.notes.append("coqchk rc=%d: %s" % (rc, out.strip()[-400:].replace("\n", " | ")))
    return rc == 0 and "Axioms: <none>" in out


# ---------------------------------------------------------------- driver / harness
def newest(paths):
    return max((os.path.getmtime(p) for p in paths if os.path.exists(p)), default=0)


def gen_coqproject():
    """_CoqProject lists every .v file under coq/ except the Extract_*.v files (extraction is run
    separately into driver/gen).  Regenerated (with the Makefile) only when the list changes."""
    files = [os.path.relpath(f, COQ) for f in coq_files() if not os.path.basename(f).startswith("Extract_")]
    text = "-Q . LLF\n-arg -w -arg -notation-overridden,-deprecated-hint-without-locality,-deprecated-instance-without-locality,-deprecated-syntactic-definition\n" + "\n".join(files) + "\n"
    p = os.path.join(COQ, "_CoqProject")
    if not os.path.exists(p) or open(p).read() != text or not os.path.exists(os.path.join(COQ, "Makefile")):
        with open(p, "w") as fh:
            fh.write(text)
        sh("coq_makefile -f _CoqProject -o Makefile", cwd=COQ)


def build_driver(ctx, name):
    """Extract the model (needs the .vo of everything Extract_<name>.v imports) and build driver/<name>.exe."""
    exe = os.path.join(DRIVER_DIR, name + ".exe")
    ext = os.path.join(COQ, "Extract_%s.v" % name)
    with Lock("coq"):
        gen_coqproject()
        deps = [d for d in coq_deps(ext) if d != ext]
        vos = [os.path.relpath(d, COQ)[:-2] + ".vo" for d in deps]
        rc, out = sh(["make", "-j%d" % NPROC] + vos, cwd=COQ, timeout=3000)
        if rc != 0:
            ctx.notes.append("model build failed: " + out[-1500:])
            return None
        srcs = [os.path.join(COQ, v) for v in vos] + [ext] + \
               [os.path.join(DRIVER_DIR, f) for f in ("conv.ml", "dcommon.ml", name + ".ml", "build.sh")]
        if os.path.exists(exe) and os.path.getmtime(exe) >= newest(srcs):
            return exe
        rc, out = sh(["sh", os.path.join(DRIVER_DIR, "build.sh"), name], timeout=1800)
        if rc != 0:
            ctx.notes.append("driver build failed: " + out[-1500:])
            return None
    return exe


def feat_dir(features):
    return "default" if not features else "-".join(sorted(features))


def build_harness(ctx, bins, features=()):
    """cargo build of the harness against /repo's current working tree (hooks on)."""
    tdir = os.path.join(TARGET, feat_dir(features))
    cmd = ["cargo", "build", "--release", "--offline"]
    for b in bins:
        cmd += ["--bin", b]
    if features:
        cmd += ["--features", ",".join(features)]
    with Lock("cargo-" + feat_dir(features)):
        rc, out = sh(cmd, cwd=HARNESS, timeout=3000, env={"CARGO_TARGET_DIR": tdir})
    if rc != 0:
        ctx.notes.append("harness build failed: " + out[-3000:])
        return None
    return os.path.join(tdir, "release")


def run_driver(ctx, exe, suite, transcript, extra=(), timeout=3000):
    rc, out = sh([exe, suite, transcript] + list(extra), timeout=timeout)
    mism, summary = [], {}
    for ln in out.split("\n"):
        if ln.startswith("MISMATCH "):
            _, kind, text = ln.split(" ", 2)
            mism.append((kind, text))
        elif ln.startswith("SUMMARY "):
            for kv in ln.split()[1:]:
                k, _, v = kv.partition("=")
                summary[k] = int(v) if re.fullmatch(r"-?\d+", v) else v
    if rc != 0 or not summary:
        mism.append(("DRIVER", "driver failed rc=%d: %s" % (rc, out[-800:])))
    return mism, summary


# ---------------------------------------------------------------- findings
def load_known():
    p = os.path.join(ROOT, "known_findings.json")
    if not os.path.exists(p):
        return []
    return json.load(open(p)).get("findings", [])


def match_known(pid, text):
    """A finding entry suppresses a violation only if status == 'known' and its regex matches."""
    for f in load_known():
        if f.get("property") == pid and f.get("status") == "known" and re.search(f["match"], text):
            return f
    return None


def write_replay(ctx, name, lines):
    path = os.path.join(REPLAYS, "%s-%s.txt" % (ctx.pid, name))
    with open(path, "w") as fh:
        fh.write("\n".join(lines) + "\n")
    return path


def violation(ctx, replay, text, no_input=False):
    ctx.violations.append((replay, text, no_input))


# ---------------------------------------------------------------- classification + evidence
def classify(ctx, proofs_ok, oracle_fail, corr_fail, search=None, name="corr"):
    """oracle_fail / corr_fail: lists of (text, replay_lines).  search: callable returning a list of
    (text, replay_lines) oracle failures found by mismatch-guided search, or []."""
    for text, lines in oracle_fail:
        k = match_known(ctx.pid, text)
        if k:
            msg = "KNOWN-FINDING: property=%s %s" % (ctx.pid, k["text"])
            if msg not in ctx.known:
                ctx.known.append(msg)
            continue
        violation(ctx, write_replay(ctx, "oracle-%d" % len(ctx.violations), ["# oracle failure on the implementation", "# " + text] + lines), text)
    if ctx.violations:
        return
    if corr_fail or not proofs_ok:
        found = []
        if search is not None:
            try:
                found = [f for f in search() if not match_known(ctx.pid, f[0])]
            except Exception as ex:  # the search is best effort
                ctx.notes.append("search failed: %r" % ex)
        if found:
            for text, lines in found[:3]:
                violation(ctx, write_replay(ctx, "search-%d" % len(ctx.violations), ["# failing input found by mismatch-guided search", "# " + text] + lines), text)
            return
        lines = ["# no failing input found; the following no longer checks"]
        if not proofs_ok:
            lines.append("proof obligations failed: " + ", ".join(ctx.proof["failed"]))
            lines += ["note: " + n for n in ctx.notes]
            lines.append(ctx.proof["log"][-2000:])
        for text, l in corr_fail[:5]:
            lines.append("correspondence %s: %s" % (name, text))
            lines += l
        violation(ctx, write_replay(ctx, "unproved", lines), "proof or correspondence no longer checks", no_input=True)


def finish(ctx, level_text, rule, extra_cov=None, assumptions=None):
    # one source for the claim text: the manifest's level text (lib/checks.json), if the property is registered
    try:
        reg = json.load(open(os.path.join(ROOT, "lib", "checks.json"))).get(ctx.pid)
        if reg:
            level_text = reg["text"]
            assumptions = assumptions or (TRUSTED_BASE + [reg["note"]])
    except (OSError, ValueError):
        pass
    evals = sum(s.get("evaluations", 0) for s in ctx.suites)
    distinct = sum(s.get("distinct", 0) for s in ctx.suites)
    cov = {
        "obligations": len(ctx.proof["obligations"]),
        "discharged": len(ctx.proof["discharged"]),
        "obligation_names": ctx.proof["obligations"],
        "checker_cmd": "make -C /verif/coq Properties/%s.vo (coqc 8.16.1, full .vo) + Print Assumptions + forbidden-construct scan of the dependency closure" % ctx.pid,
        "trusted_base": TRUSTED_BASE,
        "evaluations": evals,
        "distinct_nontrivial": distinct,
        "rule": rule,
        "samples": ctx.samples[:8] if ctx.samples else ["(no samples recorded)"],
        "suites": ctx.suites,
        "explanation": level_text,
        "notes": ctx.notes,
        "known_findings_reported": ctx.known,
    }
    if extra_cov:
        cov.update(extra_cov)
    if not ctx.proof["discharged"]:
        # schema: a proof-level record needs discharged >= 1; when the obligations failed (the check
        # reports a violation in that case) fall back to the exploration-style keys only
        cov["proof_obligations_failed"] = cov.pop("obligations")
        cov.pop("discharged")
        cov["evaluations"] = max(1, cov["evaluations"])
        cov["distinct_nontrivial"] = max(2, cov["distinct_nontrivial"])
    ev = {
        "property_id": ctx.pid,
        "tier": ctx.tier,
        "seed": ctx.seed,
        "level": "proof",
        "coverage": cov,
        "assumptions": assumptions or TRUSTED_BASE,
        "wall_s": round(time.time() - ctx.t0, 2),
        "violations": len(ctx.violations),
    }
    with open(os.path.join(EVIDENCE, ctx.pid + ".json"), "w") as fh:
        json.dump(ev, fh, indent=1)
    for k in ctx.known:
        print(k)
    for n in ctx.notes:
        print("note:", n)
    for replay, text, no_input in ctx.violations:
        print("violation detail:", text[:400])
        print("VIOLATION property=%s replay=%s%s" % (ctx.pid, replay, " no-failing-input-found" if no_input else ""))
    print("%s %s: proofs %d/%d, %d evaluations (%d distinct non-trivial), %d violation(s), %.1fs" % (
        ctx.pid, ctx.tier, len(ctx.proof["discharged"]), len(ctx.proof["obligations"]), evals, distinct,
        len(ctx.violations), time.time() - ctx.t0))
    return 1 if ctx.violations else 0
