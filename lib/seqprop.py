"""Generic client of the sequential correspondence suites: a property module describes which suites
to run (quick / thorough plans), which CORR components its theorems depend on and which ORACLE tags
decide it; this module does the rest (proof build + audit, corpus first, suites, shrinking,
classification, evidence)."""
import glob
import os

import seqcommon
import vlib

GEOMETRIES = [(), ("tree_huge_1",), ("tree_huge_2",), ("tree_huge_8",), ("16K",)]
CORPUS = os.path.join(vlib.ROOT, "corpus", "seq")


def run(ctx, theorems, corr, oracle, quick_plan, thorough_plan, text, rule, corpus_tags=None, extra=None,
        prop_file=None, keep=None):
    """plans: list of dicts {suite, features, histories, ops, extra_args, desc}.
    corpus_tags: replay files of /verif/corpus/seq whose name starts with one of these run first.
    extra: optional callable(ctx) -> (oracle_fail, corr_fail) for additional suites of the property.
    keep: optional predicate (kind, text) on ORACLE mismatches; False drops a case outside the property's hypotheses."""
    pid = ctx.pid
    prop = prop_file or os.path.join(vlib.COQ, "Properties", pid + ".v")
    if isinstance(theorems, dict):      # several theorem files: {file: [theorems]}
        proofs_ok = vlib.coq_prove_multi(ctx, [(os.path.join(vlib.COQ, "Properties", f), t) for f, t in theorems.items()])
    else:
        proofs_ok = vlib.coq_prove(ctx, prop, theorems) if theorems else False
    if not theorems:
        ctx.notes.append("%s: no theorem registered" % pid)
    o_fail, c_fail, mism = [], [], []

    def take(m):
        o, c = seqcommon.select(m, corr=corr, oracle=oracle)
        if keep is not None:            # property-specific exclusions (cases outside the theorem's hypotheses)
            o = [x for x in o if keep(x[0], x[1])]
        return o + c

    if ctx.replay:
        feats = ()
        with open(ctx.replay) as fh:
            for ln in fh:
                if ln.startswith("# geometry features:"):
                    f = ln.split(":", 1)[1].strip()
                    feats = () if f in ("", "default") else tuple(f.split(","))
        m, summ, _ = seqcommon.run_replay(ctx, ctx.replay, feats)
        ctx.suites.append(seqcommon.suite_record("replay", "calls of %s re-run on the current code" % ctx.replay, summ))
        for k, t, _p in take(m):
            (o_fail if k.startswith("ORACLE") else c_fail).append((k + " " + t, ["# re-run: ./check %s --replay %s" % (pid, ctx.replay)]))
    else:
        # corpus of minimised earlier failures first
        for f in sorted(glob.glob(os.path.join(CORPUS, "*.txt"))):
            base = os.path.basename(f)
            if corpus_tags is not None and not any(base.startswith(t) for t in corpus_tags):
                continue
            feats = ()
            with open(f) as fh:
                for ln in fh:
                    if ln.startswith("# geometry features:"):
                        x = ln.split(":", 1)[1].strip()
                        feats = () if x in ("", "default") else tuple(x.split(","))
            m, summ, _ = seqcommon.run_replay(ctx, f, feats, out_name="corpus-" + base[:-4])
            ctx.suites.append(seqcommon.suite_record("corpus/" + base, "minimised earlier failure, re-run on the current code", summ))
            for k, t, _p in take(m):
                (o_fail if k.startswith("ORACLE") else c_fail).append(
                    (k + " " + t, ["# corpus file " + f] + open(f).read().split("\n")))
        for p in (quick_plan if ctx.quick else thorough_plan):
            feats = tuple(p.get("features", ()))
            m, summ, _paths = seqcommon.run_suite(ctx, p["suite"], features=feats, histories=p.get("histories", 100),
                                                  ops=p.get("ops", 150), extra_args=p.get("extra_args", ()),
                                                  name=p.get("name"))
            ctx.suites.append(seqcommon.suite_record(p["suite"] + "/" + vlib.feat_dir(feats), p.get("desc", ""), summ))
            mism += take(m)
        for kind, (t, lines) in seqcommon.shrink_groups(ctx, mism).items():
            (o_fail if kind.startswith("ORACLE") else c_fail).append((kind + " " + t, lines))
        for kind, t, _p in mism[:3]:
            ctx.samples.append("%s %s" % (kind, t[:200]))
    if extra is not None:
        eo, ec = extra(ctx)
        o_fail += eo
        c_fail += ec
    if not ctx.samples:
        # a few transcript lines as samples of what was explored
        for f in sorted(glob.glob(os.path.join(ctx.work, "*.txt")))[:2]:
            with open(f) as fh:
                for i, ln in enumerate(fh):
                    if ln.startswith(("CFG", "OP", "Q")) and i % 50 < 2:
                        ctx.samples.append(ln.strip()[:200])
                    if len(ctx.samples) >= 8:
                        break
    vlib.classify(ctx, proofs_ok, o_fail, c_fail, name="seqrun")
    return vlib.finish(ctx, text, rule)
