#!/usr/bin/env python3
"""Maintains MANIFEST.json: checks are generated from lib/checks.json; `python3 lib/manifest_tool.py` recomputes not_applicable for every property
without a check (reasons from lib/na_reasons.json) and engines.serves_properties."""
import json, os
R = os.path.dirname(os.path.dirname(os.path.abspath(__file__)))
m = json.load(open(os.path.join(R, "MANIFEST.json")))
props = [json.loads(l)["id"] for l in open(os.path.join(R, "properties.jsonl"))]
reasons = json.load(open(os.path.join(R, "lib", "na_reasons.json")))
defs = json.load(open(os.path.join(R, "lib", "checks.json")))
m["checks"] = [{"property_id": pid, "quick_cmd": "./check %s --tier quick" % pid, "thorough_cmd": "./check %s --tier thorough" % pid,
                "evidence_file": "/verif/evidence/%s.json" % pid, "replay_cmd_template": "./check %s --replay {path}" % pid, "engine": "check",
                "level_claimed": {"category": "proof", "text": d["text"], "design_ref": d["design"]}, "level_note": d["note"], "technique": d["technique"]}
               for pid, d in sorted(defs.items())]
claimed = [c["property_id"] for c in m["checks"]]
m["not_applicable"] = [{"property_id": p, "reason": reasons.get(p, "not claimed yet: the model, theorems and correspondence for this property are still being built (see DESIGN.md section 9)")}
                       for p in props if p not in claimed]
m["engines"][0]["serves_properties"] = sorted(claimed)
json.dump(m, open(os.path.join(R, "MANIFEST.json"), "w"), indent=1)
print("claimed:", sorted(claimed))
