"""Common code of the properties decided on the small-step machine M1 (C01, C03, C05, C21):
runs harness/src/bin/schedrun.rs (real threads under a deterministic scheduler) piped into
driver/step.exe (extracted machine + oracles), sharded over up to 16 processes, merges the results and
shrinks failing schedules by delta debugging over the thread-id list (`schedrun --mode replay`).

A *job* is a list of extra schedrun arguments, e.g. ["--mode", "exhaustive", "--scenario", "all",
"--preemptions", "2"]; every job is run as n shards (`--shard i/n`), which partition the schedules of
the job (DFS subtrees / PCT run indices) without overlap.

MISMATCH lines of the driver look like
    MISMATCH <CORR|ORACLE> <[tag]> scenario=<s> cfg=<c> run=<n> mode=<m> <text> sched=<t,t,...>
The tag of an ORACLE line names the property ([C01], [C03], [C05], [C21]); each property module picks
its own tag, CORR lines concern every module."""
import os
import re
import subprocess
import time

import vlib

MAX_PROCS = 16
HARNESS_BIN = "schedrun"
DRIVER = "step"


def nshards():
    return max(1, min(MAX_PROCS, vlib.NPROC))


UPPER_DRIVER = "ustep"     # driver/ustep.ml: machine M2 (whole allocator), transcripts of `schedrun --api upper`


def scenarios(rel, api="lower"):
    """built-in scenarios of the harness built for this geometry: [(name, threads)]"""
    rc, out = vlib.sh([os.path.join(rel, HARNESS_BIN), "--list", "--api", api])
    res = []
    for ln in out.split("\n"):
        m = re.match(r"(\S+) threads=(\d+) ", ln)
        if m:
            res.append((m.group(1), int(m.group(2))))
    return res


class Failure:
    def __init__(self, kind, tag, text, features=()):
        self.kind, self.tag, self.text, self.features = kind, tag, text, tuple(features)
        m = re.search(r"scenario=(\S+)", text)
        self.scenario = m.group(1) if m else None
        m = re.search(r"sched=([0-9,]*)", text)
        self.sched = [int(x) for x in m.group(1).split(",") if x] if m else []
        m = re.search(r"mode=\S+ (.*) sched=", text)
        self.detail = m.group(1) if m else text

    def signature(self):
        """what a shrunk schedule has to reproduce: same kind and tag and the same sort of message"""
        d = re.sub(r"\d+", "N", self.detail)
        return (self.kind, self.tag, d[:60])


def parse_driver_output(out, features=()):
    fails, summary = [], {}
    for ln in out.split("\n"):
        if ln.startswith("MISMATCH "):
            parts = ln.split(" ", 3)
            if len(parts) == 4:
                fails.append(Failure(parts[1], parts[2], parts[3], features))
        elif ln.startswith("SUMMARY "):
            for kvs in ln.split()[1:]:
                k, _, v = kvs.partition("=")
                summary[k] = int(v) if re.fullmatch(r"-?\d+", v) else v
    return fails, summary


def suite_of(exe):
    """the suite argument of a driver = its name (driver/step.exe -> step, driver/ustep.exe -> ustep)"""
    return os.path.splitext(os.path.basename(exe))[0]


def _pipeline(rel, exe, args, keys):
    h = [os.path.join(rel, HARNESS_BIN)] + [str(a) for a in args]
    d = [exe, suite_of(exe), "-"] + ([keys] if keys else [])
    return h, d


def run_pipe(rel, exe, args, keys=None, timeout=3000):
    """schedrun <args> | step.exe step - [keys] -> (rc, driver stdout, harness stderr)"""
    h, d = _pipeline(rel, exe, args, keys)
    env = dict(os.environ)
    env["LC_ALL"] = "C"
    ph = subprocess.Popen(h, stdout=subprocess.PIPE, stderr=subprocess.PIPE, env=env)
    pd = subprocess.Popen(d, stdin=ph.stdout, stdout=subprocess.PIPE, stderr=subprocess.STDOUT, env=env)
    ph.stdout.close()
    try:
        out, _ = pd.communicate(timeout=timeout)
        err = ph.stderr.read()
        ph.wait(timeout=60)
    except subprocess.TimeoutExpired:
        ph.kill()
        pd.kill()
        return 124, "", "TIMEOUT"
    rc = pd.returncode or ph.returncode
    return rc, out.decode("utf-8", "replace"), err.decode("utf-8", "replace")


def merge(summaries, keysets):
    tot = {}
    for s in summaries:
        for k, v in s.items():
            if not isinstance(v, int):
                tot[k] = v
            elif k in ("maxsteps", "solomax"):
                tot[k] = max(tot.get(k, 0), v)
            else:
                tot[k] = tot.get(k, 0) + v
    tot["distinct"] = len(keysets)
    return tot


def run_jobs(ctx, rel, exe, jobs, features=(), label="", timeout=3000):
    """Runs every job as nshards() shard processes (all jobs' shards concurrently, at most MAX_PROCS at a
    time).  Returns (failures, merged summary, notes)."""
    n = nshards()
    work = []
    for ji, job in enumerate(jobs):
        for i in range(n):
            keys = ctx.path("keys-%s-%d-%d.txt" % (label or "j", ji, i))
            work.append((job, i, keys))
    procs, results, notes = [], [], []
    env = dict(os.environ)
    env["LC_ALL"] = "C"
    pending = list(work)
    running = []
    t_end = time.time() + timeout

    def start(item):
        job, i, keys = item
        h, d = _pipeline(rel, exe, list(job) + ["--shard", "%d/%d" % (i, n)], keys)
        ph = subprocess.Popen(h, stdout=subprocess.PIPE, stderr=subprocess.PIPE, env=env)
        outf = open(keys + ".out", "wb")
        pd = subprocess.Popen(d, stdin=ph.stdout, stdout=outf, stderr=subprocess.STDOUT, env=env)
        ph.stdout.close()
        return (item, ph, pd, outf)

    while pending or running:
        while pending and len(running) < MAX_PROCS:
            running.append(start(pending.pop(0)))
        still = []
        for item, ph, pd, outf in running:
            if pd.poll() is None:
                if time.time() > t_end:
                    ph.kill()
                    pd.kill()
                    notes.append("timeout: %s" % " ".join(map(str, item[0])))
                else:
                    still.append((item, ph, pd, outf))
                continue
            try:
                err = ph.stderr.read().decode("utf-8", "replace")
                ph.wait(timeout=60)
            except Exception as ex:  # noqa: BLE001
                err = repr(ex)
            outf.close()
            out = open(item[2] + ".out", "rb").read().decode("utf-8", "replace")
            results.append((item, pd.returncode, ph.returncode, out, err))
        running = still
        if running:
            time.sleep(0.05)
    fails, summaries, keyset = [], [], set()
    for (job, i, keys), drc, hrc, out, err in results:
        f, s = parse_driver_output(out, features)
        if drc != 0 or hrc != 0 or not s:
            f.append(Failure("DRIVER", "[run]", "shard %d of [%s] failed: driver rc=%s harness rc=%s: %s %s" % (
                i, " ".join(map(str, job)), drc, hrc, out[-400:], err[-400:]), features))
        fails += f
        summaries.append(s)
        if os.path.exists(keys):
            with open(keys) as fh:
                keyset.update(ln.strip() for ln in fh if ln.strip())
    return fails, merge(summaries, keyset), notes


# ------------------------------------------------------------------ replay and shrinking
def replay(ctx, rel, exe, scenario, sched, extra=()):
    """One explicit schedule -> (failures, summary, transcript text)."""
    args = ["--mode", "replay", "--scenario", scenario, "--schedule", ",".join(map(str, sched)) or "-"] + list(extra)
    tr = ctx.path("replay.txt")
    rc, out = vlib.sh([os.path.join(rel, HARNESS_BIN)] + args + ["--out", tr])
    if rc != 0:
        return [Failure("DRIVER", "[run]", "schedrun failed rc=%d %s" % (rc, out[-300:]))], {}, ""
    rc, out = vlib.sh([exe, suite_of(exe), tr])
    fails, summ = parse_driver_output(out)
    return fails, summ, open(tr).read()


def shrink(ctx, rel, exe, failure, extra=(), budget=400):
    """ddmin over the thread-id list: the smallest schedule (entries naming a thread that cannot move are
    skipped by `--mode replay`, unfinished threads are completed round-robin) that still produces a
    failure with the same signature.  Returns (schedule given, schedule executed, transcript, failure) or None."""
    if not failure.scenario:
        return None
    sig = failure.signature()
    tests = [0]

    def fails(s):
        if tests[0] >= budget:
            return None
        tests[0] += 1
        fl, _, tr = replay(ctx, rel, exe, failure.scenario, s, extra)
        for f in fl:
            if f.signature() == sig:
                return (f, tr)
        return None

    cur = list(failure.sched)
    best = fails(cur)
    if best is None:
        return None
    n = 2
    while len(cur) >= 2:
        chunk = max(1, len(cur) // n)
        reduced = False
        for i in range(0, len(cur), chunk):
            cand = cur[:i] + cur[i + chunk:]
            r = fails(cand)
            if r is not None:
                cur, best, reduced = cand, r, True
                n = max(n - 1, 2)
                break
        if not reduced:
            if chunk == 1:
                break
            n = min(len(cur), n * 2)
    f, tr = best
    return cur, f.sched, tr, f


def replay_lines(failure, shrunk, features=()):
    feat = ",".join(features) or "-"
    lines = ["# scenario=%s features=%s" % (failure.scenario, feat),
             "# found: %s" % failure.text[:600]]
    if shrunk:
        given, executed, tr, f = shrunk
        lines += ["# minimal schedule (thread ids; entries of threads that cannot move are skipped, the rest runs round-robin):",
                  "REPLAY scenario=%s features=%s schedule=%s" % (failure.scenario, feat, ",".join(map(str, given)) or "-"),
                  "# schedule executed: %s" % ",".join(map(str, executed)),
                  "# " + f.text[:600],
                  "# re-run: harness/schedrun --mode replay --scenario %s --schedule %s | driver/%s.exe %s -" % (
                      failure.scenario, ",".join(map(str, given)) or "-",
                      "ustep" if failure.scenario.startswith("u-") else "step", "ustep" if failure.scenario.startswith("u-") else "step"),
                  "# transcript:"]
        lines += tr.rstrip("\n").split("\n")[:200]
    else:
        lines += ["REPLAY scenario=%s features=%s schedule=%s" % (failure.scenario, feat, ",".join(map(str, failure.sched)) or "-")]
    return lines


def parse_replay_file(path):
    """REPLAY lines of a replay file written by replay_lines -> [(scenario, features, schedule)]"""
    res = []
    for ln in open(path):
        if ln.startswith("REPLAY "):
            d = dict(kv.split("=", 1) for kv in ln.split()[1:] if "=" in kv)
            sched = [int(x) for x in d.get("schedule", "").split(",") if x.strip().isdigit()]
            feats = tuple(x for x in d.get("features", "-").split(",") if x and x != "-")
            res.append((d.get("scenario"), feats, sched))
    return res


def group_failures(fails, limit=3):
    """one representative per signature (shortest schedule first)"""
    seen = {}
    for f in sorted(fails, key=lambda f: len(f.sched)):
        seen.setdefault((f.signature(), f.scenario, f.features), f)
    by_sig = {}
    for (sig, _, _), f in seen.items():
        by_sig.setdefault(sig, []).append(f)
    out = []
    for sig, fl in by_sig.items():
        out += fl[:limit]
    return out
