#!/usr/bin/env python3
"""Regenerates section 11.4 of DESIGN.md (seeded changes and which checks catch them) from seeded/*/meta.json."""
import glob, json, os, re
R = os.path.dirname(os.path.dirname(os.path.abspath(__file__)))
NOTES = {
 "C01-B": "first run: bare mismatch; after adding the sequential suites to C01 a failing call sequence is reported",
 "C05-D": "round 3: missed; caught after split scenarios with the huge block in tree 1",
 "C10-C": "round 3: correspondence only; caught after history epilogues + 15th exhaustive symbol",
 "C11-D": "round 3: correspondence only; caught after the whole-tree boundary round of the exhaust suite",
 "C13-D": "round 3: correspondence only; caught after the custom-policy steal-vs-demote scenarios",
 "C01-C": "round 3b: correspondence only; caught after multi-row search vs whole-row allocation scenarios",
 "C21-D": "round 3b: missed; caught after change_tree (matcher free 0) vs get/put scenarios and the scheduler's step limit",
 "C06-D": "round 3c: missed (a harness assertion failure was DROPPED by the shrinker: checker bug, fixed); caught by the LAYOUT oracle / packed arena",
 "C20-D": "round 3c: missed; caught after traces with tied time stamps",
 "C18-B": "caught through the atomic-read discipline proxy (ACC lines) added late; data races as such are outside C18's claim",
 "C01-E": "round 4: correspondence only; caught after failing-targeted-get vs untargeted-get scenarios",
 "C10-E": "round 4 (same patch as C15-D): correspondence only for C10; caught after set_start vs put scenarios and freed-frame probes",
 "C03-G": "round 4: missed; caught after set_start vs new-reservation scenarios (and the per-scenario print limit)",
 "C13-E": "round 4: missed; caught after custom-policy reserve-vs-demote / reclass scenarios",
 "C04-A": "first run: missed; caught after adding the sync-vs-drain / shared-slot / demote scenarios to the upper-API schedules",
 "C06-B": "first run: missed (zeroed buffers hid it); caught after the init suite starts from dirty buffers and construction panics count for C06",
 "C10-B": "same change as C04-A; caught by C10 after the concurrent drain-and-probe suite was added to it",
 "C16-B": "first run: missed by C16 (only SortedBuffer was tied); caught after `searchrun` drives the real Trees::search_best",
 "C17-A": "first run: missed; caught after refusal cases that share the header page were added",
 "C18-B": "data race (plain read of counters that other threads CAS): outside the claimed, address-range half of C18; no executable Gallina model exhibits it (Miri/TSan would)",
 "C03-C": "second round: sync rollback with the wrong amount; C03 reports schedule u-sync-demote 1,1,1,1,1 (the post phase frees every held block: Tree::put assert), C04/C10 report accounting schedules",
 "C04-C": "second round (concurrency-only changes in the upper layer): drain's atomic swap split into load + store",
 "C15-C": "second round: first run reported a step mismatch only; caught with a schedule after the offline-vs-reserve scenarios were added",
 "C15-D": "second round: first run reported a step mismatch only; caught with a schedule after the set_start-vs-drain-offline scenario was added",
 "C21-A": "first run: the never-returning call overflowed the worker stack and was reported without an input; now reported with the frozen schedule as soon as the proven budget is exceeded",
 "C21-B": "needs the whole-allocator machine M2 in freeze mode (added)",
}
rows = []
for d in sorted(glob.glob(os.path.join(R, "seeded", "*", "meta.json"))):
    m = json.load(open(d)); n = os.path.basename(os.path.dirname(d))
    patch = open(os.path.join(os.path.dirname(d), "patch.diff")).read()
    files = sorted(set(re.findall(r"^\+\+\+ b/(\S+)", patch, re.M)))
    summ = re.sub(r"\s+", " ", m.get("summary", ""))
    summ = re.sub(r"^(core|eval)/src/\S+,?\s*", "", summ)[:170].replace("|", "/")
    needs = re.sub(r"\s+", " ", str(m.get("needs", "")))[:150].replace("|", "/")
    det = []
    for k, v in m.get("evaluated", {}).items():
        if v["exit"] != 0:
            nf = any("no-failing-input-found" in x for x in v["violations"])
            det.append(k + (" (mismatch only)" if nf else ""))
    rows.append("| %s | %s | %s | %s | %s | %s |" % (n, ", ".join(f.replace("core/src/", "").replace("eval/src/", "eval:") for f in files),
                summ, needs, ", ".join(det) or "**none**", NOTES.get(n, "")))
text = """### 11.4 Seeded changes and which checks catch them

Each change was written by a fresh sub-agent that saw only the property text and a scratch worktree, and was kept only
after the lead confirmed on a scratch worktree at `/repo`'s HEAD that it applies, that the unedited suite still passes
with it (51 tests), and that its demonstration fails with it and passes without it (`lib/seeded.py confirm`). Each is
stored as `seeded/<id>/{patch.diff, demo/, meta.json}`; `lib/seeded.py eval` applies it to `/repo`, runs the quick
tier of the named checks, reverts `/repo`, and records the outcome in `meta.json`. "caught by" lists the checks that
exited 1 with a VIOLATION line whose replay holds a concrete failing input (call sequence, schedule, trace, row,
configuration); "(mismatch only)" marks a `no-failing-input-found` report.

| id | files | change | needs | caught by | note |
|---|---|---|---|---|---|
""" + "\n".join(rows) + """

%d of %d seeded changes are reported by the check of the property they were written against, each with a concrete
failing input (C18-B, a query reading shared counters with plain loads, only through a proxy: the atomic-read
discipline of the query functions, see 11.6 - data races as such are in the half of C18 this technique cannot
express). About a quarter of them were first missed or reported only as a broken correspondence and needed the
machinery to be strengthened - new scheduler scenarios, history epilogues, tied time stamps, the packed metadata
arena, the step limit, the post-phase frees and probes, and two genuine bugs of the checker itself (harness failures
dropped by the shrinker; the per-tag print limit of the drivers) - see the notes above and 11.6. In round 4 the
independent agents re-invented four changes of earlier rounds.
""" % (sum(1 for r in rows if "**none**" not in r), len(rows))
p = os.path.join(R, "DESIGN.md")
s = open(p).read()
a = s.find("### 11.4 Seeded changes")
if a >= 0:
    b = s.find("\n### 11.5", a)
    s = s[:a] + text + s[b:]
else:
    b = s.find("### 11.5 Trusted base as built")
    s = s[:b] + text + "\n" + s[b:]
open(p, "w").write(s)
print("rows:", len(rows))
