#!/usr/bin/env python3
"""Seeded-change bookkeeping.

  seeded.py confirm <worktree> <outdir> <name>
      confirms a change delivered by an independent agent in <worktree>/<outdir> (patch.diff, demo/, meta.json):
      on a scratch worktree at /repo's HEAD: the patch applies, the unedited suite passes with it, the demo fails
      with it and passes without it.  On success copies everything to /verif/seeded/<name>/.
  seeded.py eval <name> <check id> [<check id> ...]
      applies /verif/seeded/<name>/patch.diff to /repo, runs the given checks (quick tier), reverts /repo,
      and records in meta.json which checks raised a violation.
"""
import json
import os
import re
import shutil
import subprocess
import sys
import time

ROOT = os.path.dirname(os.path.dirname(os.path.abspath(__file__)))
SEEDED = os.path.join(ROOT, "seeded")
ENV = dict(os.environ, CARGO_NET_OFFLINE="true")


def sh(cmd, cwd, timeout=3600):
    p = subprocess.run(cmd, cwd=cwd, shell=True, env=ENV, stdout=subprocess.PIPE, stderr=subprocess.STDOUT, timeout=timeout)
    return p.returncode, p.stdout.decode("utf-8", "replace")


def suite_ok(out):
    res = re.findall(r"^test result: (\w+)\. (\d+) passed; (\d+) failed", out, re.M)
    return bool(res) and all(r[0] == "ok" for r in res), sum(int(r[1]) for r in res), sum(int(r[2]) for r in res)


def demo_cmds(run_md):
    cmds = []
    for ln in open(run_md):
        s = ln.strip().strip("`")
        m = re.search(r"(cargo (test|run)[^#`]*)", s)
        if m and ("--test " in s or "--bin " in s or "--example " in s or "cargo run" in s) and "--workspace" not in s:
            c = m.group(1).strip()
            if c not in cmds:
                cmds.append(c)
    return cmds


def confirm(worktree, outdir, name):
    src = os.path.join(worktree, outdir)
    head = subprocess.check_output(["git", "-C", "/repo", "rev-parse", "HEAD"]).decode().strip()
    log = []
    sh("git checkout -q -- . && git checkout -q --detach %s" % head, worktree)
    rc, out = sh("git apply --check %s/patch.diff" % src, worktree)
    if rc != 0:
        print("patch does not apply to current HEAD:", out[-300:])
        return 1
    sh("git apply %s/patch.diff" % src, worktree)
    t0 = time.time()
    rc, out = sh("cargo test --workspace --no-fail-fast --offline", worktree)
    ok, p, f = suite_ok(out)
    log.append("with change: cargo test --workspace --no-fail-fast --offline -> %s (%d passed, %d failed, %.0fs)" % ("ok" if ok else "FAILED", p, f, time.time() - t0))
    if not ok:
        sh("git checkout -q -- .", worktree)
        print("\n".join(log)); print("existing suite fails with the change: rejected")
        return 1
    # install demo
    demo = os.path.join(src, "demo")
    installed = []
    for d, _, fs in os.walk(demo):
        for fn in fs:
            if fn == "RUN.md":
                continue
            rel = os.path.relpath(os.path.join(d, fn), demo)
            dst = os.path.join(worktree, rel)
            os.makedirs(os.path.dirname(dst), exist_ok=True)
            shutil.copy(os.path.join(d, fn), dst)
            installed.append(dst)
    cmds = demo_cmds(os.path.join(demo, "RUN.md"))
    if not cmds:
        print("no demo command found in RUN.md")
        return 1
    cmd = cmds[0]
    rc1, out1 = sh(cmd, worktree)
    log.append("with change: %s -> rc=%d %s" % (cmd, rc1, " | ".join(re.findall(r"^test result:.*$", out1, re.M))[:200]))
    sh("git checkout -q -- .", worktree)
    rc2, out2 = sh(cmd, worktree)
    log.append("without change: %s -> rc=%d %s" % (cmd, rc2, " | ".join(re.findall(r"^test result:.*$", out2, re.M))[:200]))
    for f_ in installed:
        os.remove(f_)
    sh("git checkout -q -- . && git clean -fdq -e OUT -e target", worktree)
    good = rc1 != 0 and rc2 == 0
    print("\n".join(log))
    if not good:
        print("demo does not discriminate: rejected")
        return 1
    dst = os.path.join(SEEDED, name)
    shutil.rmtree(dst, ignore_errors=True)
    shutil.copytree(src, dst, ignore=shutil.ignore_patterns("*.log"))
    meta = json.load(open(os.path.join(dst, "meta.json")))
    meta["confirmed_by_lead"] = {"at_commit": head, "ran": log}
    json.dump(meta, open(os.path.join(dst, "meta.json"), "w"), indent=1)
    print("confirmed ->", dst)
    return 0


def evaluate(name, checks, tier="quick"):
    dst = os.path.join(SEEDED, name)
    patch = os.path.join(dst, "patch.diff")
    rc, out = sh("git status --porcelain", "/repo")
    if out.strip():
        print("/repo is not clean:", out)
        return 1
    rc, out = sh("git apply %s" % patch, "/repo")
    if rc != 0:
        print("patch does not apply:", out)
        return 1
    results = {}
    try:
        for c in checks:
            t0 = time.time()
            rc, out = sh("./check %s --tier %s" % (c, tier), ROOT, timeout=7200)
            viol = [l for l in out.split("\n") if l.startswith("VIOLATION")]
            detail = [l for l in out.split("\n") if l.startswith("violation detail:")]
            results[c] = {"exit": rc, "violations": viol[:3], "detail": [d[:300] for d in detail[:2]], "wall_s": round(time.time() - t0, 1)}
            print(c, "exit", rc, viol[:1], detail[:1])
    finally:
        sh("git checkout -- .", "/repo")
    meta = json.load(open(os.path.join(dst, "meta.json")))
    meta.setdefault("evaluated", {}).update(results)
    meta["detected_by"] = sorted(c for c, r in meta["evaluated"].items() if r["exit"] != 0)
    json.dump(meta, open(os.path.join(dst, "meta.json"), "w"), indent=1)
    return 0


if __name__ == "__main__":
    if sys.argv[1] == "confirm":
        sys.exit(confirm(sys.argv[2], sys.argv[3], sys.argv[4]))
    elif sys.argv[1] == "eval":
        sys.exit(evaluate(sys.argv[2], sys.argv[3:]))
