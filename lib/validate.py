#!/usr/bin/env python3
"""Validate MANIFEST.json and evidence/*.json against the schemas (needs jsonschema: run with python3-vt)."""
import json, sys, glob
import jsonschema
m = json.load(open('/verif/MANIFEST.json'))
jsonschema.validate(m, json.load(open('/root/.vp/MANIFEST.schema.json')))
print("manifest ok:", [c['property_id'] for c in m['checks']])
es = json.load(open('/root/.vp/EVIDENCE.schema.json'))
for f in sorted(glob.glob('/verif/evidence/*.json')):
    jsonschema.validate(json.load(open(f)), es)
    print("evidence ok:", f)
