//! Shared helpers of the verification harness: PRNG, argument parsing, output.
use std::io::{BufWriter, Write};

use llfree::{Class, Classing, Policy, PolicyFn, TREE_FRAMES};

// ---------------------------------------------------------------------------------------------
// The policy functions of the harness (Coq: Policies.v).  They live here so that `seqrun` (which
// runs allocators with them) and `polrun` (which tabulates them for the comparison with the Coq
// definitions) use the very same functions.

/// eval/tests/integration.rs `zeroed_steals_from_huge` (Policies.v `pol_zeroed`)
pub fn zeroed_policy(requested: Class, target: Class, free: usize) -> Policy {
    if requested.0 > target.0 {
        return Policy::Steal;
    } else if requested.0 < target.0 {
        return Policy::Demote;
    }
    match free {
        f if f >= TREE_FRAMES / 2 => Policy::Match(1),
        f if f >= TREE_FRAMES / 64 => Policy::Match(u8::MAX),
        _ => Policy::Match(0),
    }
}

/// Three classes; requested 0 on target 2 and requested 2 on target 0 are unusable, everything else
/// is rated like the simple policy (Coq: Policies.v `pol_custom`).
pub fn custom_policy(requested: Class, target: Class, free: usize) -> Policy {
    if (requested.0 == 0 && target.0 == 2) || (requested.0 == 2 && target.0 == 0) {
        return Policy::Invalid;
    }
    zeroed_policy(requested, target, free)
}

/// The names of the transcript's `policy=` field, in the order of Policies.v `pol_select`.
pub const POLICY_NAMES: [&str; 5] = ["simple", "movable", "zeroed", "zeroslot", "custom"];

/// The policy function a `policy=<name>` configuration runs with.
pub fn policy_by_name(name: &str) -> PolicyFn {
    match name {
        // the nested policy functions of the crate's own classings
        "simple" | "zeroslot" => Classing::simple(1).0.policy,
        "movable" => Classing::movable(1).0.policy,
        "zeroed" => zeroed_policy,
        "custom" => custom_policy,
        _ => panic!("unknown policy {name}"),
    }
}

/// SplitMix64: every random choice of a run derives from one seed.
#[derive(Clone)]
pub struct Rng(pub u64);
impl Rng {
    pub fn new(seed: u64) -> Self {
        Rng(seed ^ 0x9e37_79b9_7f4a_7c15)
    }
    pub fn next(&mut self) -> u64 {
        self.0 = self.0.wrapping_add(0x9e37_79b9_7f4a_7c15);
        let mut z = self.0;
        z = (z ^ (z >> 30)).wrapping_mul(0xbf58_476d_1ce4_e5b9);
        z = (z ^ (z >> 27)).wrapping_mul(0x94d0_49bb_1331_11eb);
        z ^ (z >> 31)
    }
    pub fn below(&mut self, n: u64) -> u64 {
        if n == 0 { 0 } else { self.next() % n }
    }
    pub fn range(&mut self, lo: usize, hi: usize) -> usize {
        lo + self.below((hi - lo) as u64) as usize
    }
    pub fn chance(&mut self, num: u64, den: u64) -> bool {
        self.below(den) < num
    }
    pub fn pick<'a, T>(&mut self, v: &'a [T]) -> &'a T {
        &v[self.below(v.len() as u64) as usize]
    }
}

/// `--key value` arguments
pub struct Args(Vec<String>);
impl Args {
    pub fn parse() -> Self {
        Args(std::env::args().skip(1).collect())
    }
    pub fn get(&self, key: &str) -> Option<&str> {
        let k = format!("--{key}");
        self.0
            .iter()
            .position(|a| *a == k)
            .and_then(|i| self.0.get(i + 1))
            .map(|s| s.as_str())
    }
    pub fn num(&self, key: &str, default: u64) -> u64 {
        self.get(key).map(|s| s.parse().expect(key)).unwrap_or(default)
    }
    pub fn flag(&self, key: &str) -> bool {
        let k = format!("--{key}");
        self.0.iter().any(|a| *a == k)
    }
}

pub fn out(path: Option<&str>) -> Box<dyn Write> {
    match path {
        Some(p) => Box::new(BufWriter::with_capacity(1 << 20, std::fs::File::create(p).expect("create"))),
        None => Box::new(BufWriter::with_capacity(1 << 20, std::io::stdout())),
    }
}
