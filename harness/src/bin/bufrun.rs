//! C16: drive the compiled `SortedBuffer<N, OrdBy<u64, u64>>` (the candidate buffer of
//! `Trees::search_best`) with insertion sequences and record what `iter().rev()` yields.
//!
//! Output: one line per sequence
//!   `B <cap> <seq> <res>`
//! where `<seq>` = inserted `key,value;key,value;...` (`-` if empty; value = insertion index so that
//! equal keys stay distinguishable) and `<res>` = the (key,value) list read by `iter().rev()` in the
//! same format, or `PANIC` if `add`/`iter` panicked.
//!
//! Modes (combinable; all randomness derives from `--seed`):
//!   `--maxlen L --domain D --maxcap C`  all sequences of length 0..=L over keys {0..D-1}, caps 1..=C
//!   `--random n`                        n seeded random sequences (length 0..=64, caps 1..=8)
//!   `--seq cap:k,v;k,v;...`             one explicit sequence (used for shrinking / replay)
//!   `--from file`                       re-run the inputs of a transcript-format file (results in
//!                                       the file are ignored, `#` lines skipped)
use std::io::Write;
use std::panic::{AssertUnwindSafe, catch_unwind};

use llfree::util::{OrdBy, SortedBuffer};
use llfree_verif_harness::{Args, Rng, out};

type Pair = (u64, u64);

fn run_cap<const N: usize>(seq: &[Pair]) -> Vec<Pair> {
    let mut b = SortedBuffer::<N, OrdBy<u64, u64>>::new();
    for &(k, v) in seq {
        b.add(OrdBy(k, v));
    }
    b.iter().rev().map(|e| (e.0, e.1)).collect()
}

macro_rules! dispatch {
    ($cap:expr, $seq:expr, $($n:literal)*) => {
        match $cap {
            $($n => run_cap::<$n>($seq),)*
            c => panic!("bufrun: capacity {c} not instantiated"),
        }
    };
}

pub const MAX_CAP: usize = 16;

fn run(cap: usize, seq: &[Pair]) -> Option<Vec<Pair>> {
    assert!(cap <= MAX_CAP, "bufrun: capacity {cap} not instantiated");
    catch_unwind(AssertUnwindSafe(|| {
        dispatch!(cap, seq, 0 1 2 3 4 5 6 7 8 9 10 11 12 13 14 15 16)
    }))
    .ok()
}

fn fmt_pairs(p: &[Pair]) -> String {
    if p.is_empty() {
        return "-".into();
    }
    let mut s = String::with_capacity(p.len() * 6);
    for (i, (k, v)) in p.iter().enumerate() {
        if i > 0 {
            s.push(';');
        }
        s.push_str(&k.to_string());
        s.push(',');
        s.push_str(&v.to_string());
    }
    s
}

fn parse_pairs(s: &str) -> Vec<Pair> {
    if s == "-" || s.is_empty() {
        return vec![];
    }
    s.split(';')
        .filter(|e| !e.is_empty())
        .map(|e| {
            let (k, v) = e.split_once(',').expect("pair k,v");
            (k.trim().parse().expect("key"), v.trim().parse().expect("value"))
        })
        .collect()
}

fn emit(w: &mut dyn Write, cap: usize, seq: &[Pair], cnt: &mut u64) {
    *cnt += 1;
    match run(cap, seq) {
        Some(r) => writeln!(w, "B {cap} {} {}", fmt_pairs(seq), fmt_pairs(&r)).unwrap(),
        None => writeln!(w, "B {cap} {} PANIC", fmt_pairs(seq)).unwrap(),
    }
}

fn main() {
    // the code under test may panic: keep the transcript readable
    std::panic::set_hook(Box::new(|_| {}));
    let args = Args::parse();
    let seed = args.num("seed", 1);
    let maxlen = args.num("maxlen", 0) as usize;
    let domain = args.num("domain", 0);
    let maxcap = (args.num("maxcap", 8) as usize).min(MAX_CAP);
    let random = args.num("random", 0);
    let mut w = out(args.get("out"));
    let mut cnt = 0u64;

    // explicit sequence
    if let Some(s) = args.get("seq") {
        let (cap, seq) = s.split_once(':').expect("--seq cap:k,v;k,v");
        emit(&mut *w, cap.parse().expect("cap"), &parse_pairs(seq), &mut cnt);
    }
    // inputs of a transcript-format file
    if let Some(f) = args.get("from") {
        for line in std::fs::read_to_string(f).expect("read --from").lines() {
            let t: Vec<&str> = line.split_whitespace().collect();
            if t.len() >= 3 && t[0] == "B" {
                emit(&mut *w, t[1].parse().expect("cap"), &parse_pairs(t[2]), &mut cnt);
            }
        }
    }

    // exhaustive: shortest sequences first, so that the first mismatch is a short one
    if domain > 0 {
        for len in 0..=maxlen {
            let total = domain.pow(len as u32);
            let mut seq: Vec<Pair> = vec![(0, 0); len];
            for code in 0..total {
                let mut c = code;
                for (i, e) in seq.iter_mut().enumerate() {
                    *e = (c % domain, i as u64);
                    c /= domain;
                }
                for cap in 1..=maxcap {
                    emit(&mut *w, cap, &seq, &mut cnt);
                }
            }
        }
    }
    let exhaustive = cnt;

    // random long sequences
    let mut rng = Rng::new(seed);
    for _ in 0..random {
        let cap = 1 + rng.below(8) as usize;
        let len = match rng.below(4) {
            0 => rng.range(0, cap + 2),
            1 => rng.range(cap, 3 * cap + 2),
            _ => rng.range(0, 65),
        };
        // key pool: few keys => many ties
        let pool: Vec<u64> = match rng.below(5) {
            0 => (0..1 + rng.below(4)).collect(),
            1 => (0..1 + rng.below(16)).collect(),
            // the ranks of the real keys: (policy rank 0..=257, entirely free) flattened
            2 => (0..1 + rng.below(6)).map(|_| rng.below(258) * 2 + rng.below(2)).collect(),
            3 => (0..1 + rng.below(8)).map(|_| rng.next() >> 2).collect(),
            _ => (0..64).map(|_| rng.next() >> 2).collect(),
        };
        let mut keys: Vec<u64> = (0..len).map(|_| *rng.pick(&pool)).collect();
        match rng.below(6) {
            0 => keys.sort(),
            1 => {
                keys.sort();
                keys.reverse()
            }
            2 => {
                // sorted with a few out-of-order insertions
                keys.sort();
                for _ in 0..1 + rng.below(3) {
                    if len > 1 {
                        let (a, b) = (rng.range(0, len), rng.range(0, len));
                        keys.swap(a, b);
                    }
                }
            }
            _ => {}
        }
        let seq: Vec<Pair> = keys.into_iter().enumerate().map(|(i, k)| (k, i as u64)).collect();
        emit(&mut *w, cap, &seq, &mut cnt);
    }
    w.flush().unwrap();
    eprintln!("bufrun: exhaustive={exhaustive} total={cnt}");
}
