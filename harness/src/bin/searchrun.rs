//! C16: drive the compiled `Trees::search_best::<N, _>` itself (trees.rs) over tree arrays and rating
//! tables of our choosing and record the order in which it calls `access`.
//!
//! No hooks are needed: `LLFree` has the public field `trees`, and `search_best` is a public method.
//! One `LLFree` (`Init::FreeAll`) per tree count is built over buffers allocated here; the raw pointer
//! of the tree buffer is kept and arbitrary entries (one u32 per tree: bits 0..27 free, bit 28 reserved,
//! bits 29..31 class) are stored into it between searches.  The allocator is used for nothing else, so
//! the counters need not be consistent with the lower allocator.  Every written entry is read back with
//! `Trees::stats_at` (layout check).
//!
//! `rate(class, free)` = lookup in a table `[class 0..7][bucket(free)]` of policy ranks
//!   (0..=255 = Match(rank), 256 = Demote, 257 = Steal, 258 = Invalid),
//!   bucket(free): 0 = (free == 0), 1 = (free < TF/2), 2 = (free < TF), 3 = (free == TF), 4 = (free > TF),
//!   TF = TREE_FRAMES.
//! `access(i)` records `i` and answers `Err(Error::Memory)`, except at the k-th call of a case with a
//!   stop (`o<k>`: `Ok(())`, `e<k>`: `Err(Error::Argument)`).
//!
//! Output: one line per case
//!   `S <N> <TF> <start> <offset> <len> <stop> <entries> <table> <accesses> <result>`
//!   <stop>     `-` | `o<k>` | `e<k>`
//!   <entries>  `free:reserved:class,...`          (ntrees = their number)
//!   <table>    rows (class 0, 1, ...) separated by `/`, 5 ranks per row separated by `,`; missing rows = Invalid
//!   <accesses> tree indices in call order, `,` separated, `-` if none
//!   <result>   `M` (Err(Memory)) | `OK` | `EARG` | `EINIT` | `PANIC`
//!
//! Modes (combinable; all randomness derives from `--seed`):
//!   `--exh-full K --exh-small M --tables T`  bounded exhaustive: every tree array of 1..=K trees over the
//!        10-entry set and of K+1..=M trees over the 5-entry set, T rating tables, every start < ntrees,
//!        every offset <= len <= ntrees + 2, N in {1, 3, 8}; every 4th case is run again with a stop;
//!        `--exh-min L` starts at L trees (to split a large run into several transcripts)
//!   `--random n`    n seeded random cases (up to 40 trees)
//!   `--from file`   re-run the inputs of the `S` lines of a file (recorded accesses/results ignored)
use std::alloc::{Layout, alloc_zeroed};
use std::cell::RefCell;
use std::io::Write;
use std::panic::{AssertUnwindSafe, catch_unwind};
use std::sync::atomic::{AtomicU32, Ordering};

use llfree::{Alloc, Class, Classing, Error, Init, LLFree, MetaData, Policy, TREE_FRAMES, TreeId};
use llfree_verif_harness::{Args, Rng, out};

const TF: usize = TREE_FRAMES;
const BUCKETS: usize = 5;
const CLASSES: usize = 8;
const INVALID: u16 = 258;
const MAX_TREES: usize = 64;

type Entry = (usize, bool, u8); // free, reserved, class

#[derive(Clone, Copy, PartialEq)]
enum Stop {
    Never,
    Ok(usize),
    Arg(usize),
}

#[derive(Clone)]
struct Case {
    cap: usize,
    start: usize,
    offset: usize,
    len: usize,
    stop: Stop,
    entries: Vec<Entry>,
    /// rows of the rating table (class 0, 1, ...); missing rows rate Invalid
    table: Vec<[u16; BUCKETS]>,
}

fn bucket(free: usize) -> usize {
    if free == 0 {
        0
    } else if free < TF / 2 {
        1
    } else if free < TF {
        2
    } else if free == TF {
        3
    } else {
        4
    }
}

fn policy_of(rank: u16) -> Policy {
    match rank {
        0..=255 => Policy::Match(rank as u8),
        256 => Policy::Demote,
        257 => Policy::Steal,
        _ => Policy::Invalid,
    }
}

// ------------------------------------------------------------------------------------------ allocator
fn buffer(size: usize) -> &'static mut [u8] {
    let layout = Layout::from_size_align(size.max(64), 64).unwrap();
    let p = unsafe { alloc_zeroed(layout) };
    assert!(!p.is_null());
    unsafe { std::slice::from_raw_parts_mut(p, size) }
}

/// An allocator over `n` trees whose tree entries we overwrite at will.
struct World {
    llf: LLFree<'static>,
    words: *const AtomicU32,
    n: usize,
}

impl World {
    fn new(n: usize) -> Self {
        let (classing, _) = Classing::simple(1);
        let frames = n * TF;
        let ms = LLFree::metadata_size(&classing, frames);
        let trees = buffer(ms.trees);
        assert!(ms.trees >= 4 * n, "tree buffer smaller than one u32 per tree");
        let words = trees.as_mut_ptr() as *const AtomicU32;
        let meta = MetaData { local: buffer(ms.local), trees, lower: buffer(ms.lower) };
        let llf = LLFree::new(frames, Init::FreeAll, &classing, meta).expect("LLFree::new");
        assert_eq!(llf.trees.len(), n);
        World { llf, words, n }
    }

    fn set(&self, entries: &[Entry]) {
        assert_eq!(entries.len(), self.n);
        for (i, &(free, reserved, class)) in entries.iter().enumerate() {
            assert!(free < 1 << 28 && class < 8);
            let w = free as u32 | (reserved as u32) << 28 | (class as u32) << 29;
            unsafe { (*self.words.add(i)).store(w, Ordering::SeqCst) };
            // the layout assumed above is the one the code reads
            let (c, f, r) = self.llf.trees.stats_at(TreeId(i));
            assert!(c.0 == class && f == free && r == reserved, "tree entry layout: wrote {w:#x}, read back {c:?} {f} {r}");
        }
    }
}

// ------------------------------------------------------------------------------------------ one search
fn search<const N: usize>(w: &World, c: &Case, calls: &RefCell<Vec<usize>>) -> Result<(), Error> {
    let mut tab = vec![INVALID; CLASSES * BUCKETS];
    for (ci, row) in c.table.iter().enumerate().take(CLASSES) {
        tab[ci * BUCKETS..(ci + 1) * BUCKETS].copy_from_slice(row);
    }
    let rate = |class: Class, free: usize| policy_of(tab[class.0 as usize * BUCKETS + bucket(free)]);
    let stop = c.stop;
    let access = |i: TreeId| -> Result<(), Error> {
        let mut v = calls.borrow_mut();
        v.push(i.0);
        match stop {
            Stop::Ok(k) if v.len() == k => Ok(()),
            Stop::Arg(k) if v.len() == k => Err(Error::Argument),
            _ => Err(Error::Memory),
        }
    };
    w.llf.trees.search_best::<N, ()>(TreeId(c.start), c.offset, c.len, rate, access)
}

macro_rules! dispatch {
    ($w:expr, $c:expr, $calls:expr, $($n:literal)*) => {
        match $c.cap {
            $($n => search::<$n>($w, $c, $calls),)*
            n => panic!("searchrun: N = {n} not instantiated"),
        }
    };
}

struct Runner {
    worlds: Vec<Option<World>>,
    cnt: u64,
}

impl Runner {
    fn emit(&mut self, w: &mut dyn Write, c: &Case) {
        let n = c.entries.len();
        assert!((1..=MAX_TREES).contains(&n) && (1..=8).contains(&c.cap));
        if self.worlds[n].is_none() {
            self.worlds[n] = Some(World::new(n));
        }
        let world = self.worlds[n].as_ref().unwrap();
        world.set(&c.entries);
        self.cnt += 1;
        let calls = RefCell::new(Vec::new());
        let r = catch_unwind(AssertUnwindSafe(|| dispatch!(world, c, &calls, 1 2 3 4 5 6 7 8)));
        let res = match r {
            Ok(Err(Error::Memory)) => "M",
            Ok(Ok(())) => "OK",
            Ok(Err(Error::Argument)) => "EARG",
            Ok(Err(Error::Initialization)) => "EINIT",
            Err(_) => "PANIC",
        };
        let calls = calls.into_inner();
        writeln!(w, "{} {} {}", fmt_input(c), fmt_list(&calls), res).unwrap();
    }
}

// ------------------------------------------------------------------------------------------ text format
fn fmt_list(v: &[usize]) -> String {
    if v.is_empty() {
        return "-".into();
    }
    v.iter().map(|x| x.to_string()).collect::<Vec<_>>().join(",")
}

fn fmt_input(c: &Case) -> String {
    let stop = match c.stop {
        Stop::Never => "-".to_string(),
        Stop::Ok(k) => format!("o{k}"),
        Stop::Arg(k) => format!("e{k}"),
    };
    let entries: Vec<String> = c.entries.iter().map(|&(f, r, k)| format!("{f}:{}:{k}", r as u8)).collect();
    // trailing all-Invalid rows are not written
    let mut rows = c.table.len().min(CLASSES);
    while rows > 1 && c.table[rows - 1].iter().all(|&x| x >= INVALID) {
        rows -= 1;
    }
    let table: Vec<String> =
        c.table[..rows].iter().map(|r| r.iter().map(|x| x.min(&INVALID).to_string()).collect::<Vec<_>>().join(",")).collect();
    format!("S {} {} {} {} {} {} {} {}", c.cap, TF, c.start, c.offset, c.len, stop, entries.join(","), table.join("/"))
}

fn parse_case(t: &[&str]) -> Option<Case> {
    if t.len() < 9 || t[0] != "S" {
        return None;
    }
    let tf: usize = t[2].parse().expect("TF");
    // entries written for another TREE_FRAMES are rescaled bucket-preservingly
    let rescale = |f: usize| -> usize {
        if tf == TF {
            f
        } else if f == 0 {
            0
        } else if f < tf / 2 {
            f.min(TF / 2 - 1).max(1)
        } else if f < tf {
            TF / 2 + (f - tf / 2).min(TF - TF / 2 - 1)
        } else if f == tf {
            TF
        } else {
            TF + (f - tf)
        }
    };
    let stop = match t[6] {
        "-" => Stop::Never,
        s if s.starts_with('o') => Stop::Ok(s[1..].parse().expect("stop")),
        s if s.starts_with('e') => Stop::Arg(s[1..].parse().expect("stop")),
        s => panic!("searchrun: bad stop {s}"),
    };
    let entries = t[7]
        .split(',')
        .filter(|e| !e.is_empty())
        .map(|e| {
            let p: Vec<&str> = e.split(':').collect();
            assert!(p.len() == 3, "entry free:reserved:class");
            (rescale(p[0].parse().expect("free")), p[1] == "1", p[2].parse().expect("class"))
        })
        .collect();
    let table = t[8]
        .split('/')
        .map(|row| {
            let v: Vec<u16> = row.split(',').map(|x| x.parse().expect("rank")).collect();
            assert!(v.len() == BUCKETS, "table row of {BUCKETS} ranks");
            [v[0], v[1], v[2], v[3], v[4]]
        })
        .collect();
    Some(Case {
        cap: t[1].parse().expect("N"),
        start: t[3].parse().expect("start"),
        offset: t[4].parse().expect("offset"),
        len: t[5].parse().expect("len"),
        stop,
        entries,
        table,
    })
}

// ------------------------------------------------------------------------------------------ generators
const M: fn(u16) -> u16 = |a| a;
const DEMOTE: u16 = 256;
const STEAL: u16 = 257;

/// Fixed rating tables of the exhaustive suite (rows class 0, class 1; buckets 0, small, half, TF, >TF).
fn fixed_tables() -> Vec<Vec<[u16; BUCKETS]>> {
    vec![
        // prefers filling partial trees: an entirely free tree rates lower than partial ones
        vec![[INVALID, M(5), M(3), M(1), INVALID], [INVALID, STEAL, DEMOTE, M(5), INVALID]],
        // perfect matches and many ties (broken by the entirely-free flag only)
        vec![[INVALID, M(255), M(7), M(7), INVALID], [M(7), DEMOTE, DEMOTE, DEMOTE, INVALID]],
        // Classing::simple as seen by a class-0 request for one frame
        vec![[INVALID, M(0), M(1), M(1), INVALID], [INVALID, DEMOTE, DEMOTE, DEMOTE, INVALID]],
        // all ratings distinct, none perfect
        vec![[M(0), M(1), M(2), M(3), INVALID], [M(254), DEMOTE, STEAL, M(4), INVALID]],
    ]
}

fn random_rank(rng: &mut Rng) -> u16 {
    match rng.below(10) {
        0 => 255,
        1 => DEMOTE,
        2 => STEAL,
        3 => INVALID,
        4 => 254,
        5 => 0,
        _ => rng.below(256) as u16,
    }
}

fn random_table(rng: &mut Rng, rows: usize) -> Vec<[u16; BUCKETS]> {
    // a small pool of ranks => many equal ratings
    let pool: Vec<u16> = match rng.below(4) {
        0 => (0..2 + rng.below(2)).map(|_| random_rank(rng)).collect(),
        1 => (0..3 + rng.below(4)).map(|_| random_rank(rng)).collect(),
        2 => vec![1, 255, 0, DEMOTE, STEAL, INVALID, 2],
        _ => (0..40).map(|_| random_rank(rng)).collect(),
    };
    (0..rows)
        .map(|_| {
            let mut r = [0u16; BUCKETS];
            for x in r.iter_mut() {
                *x = *rng.pick(&pool);
            }
            r
        })
        .collect()
}

const FULL_SET: [Entry; 10] = [
    (0, false, 0),
    (1, false, 0),
    (TF / 2, false, 0),
    (TF, false, 0),
    (0, false, 1),
    (1, false, 1),
    (TF / 2, false, 1),
    (TF, false, 1),
    (TF, true, 0),
    (1, true, 1),
];
const SMALL_SET: [Entry; 5] = [(1, false, 0), (TF, false, 0), (TF / 2, false, 1), (TF, false, 1), (TF / 2, true, 0)];

fn exhaustive(run: &mut Runner, w: &mut dyn Write, rng: &mut Rng, min: usize, full: usize, small: usize, ntables: usize) {
    let mut tables = fixed_tables();
    while tables.len() < ntables {
        tables.push(random_table(rng, 2));
    }
    tables.truncate(ntables);
    let mut k = 0u64;
    for n in min.max(1)..=full.max(small) {
        let set: &[Entry] = if n <= full { &FULL_SET } else { &SMALL_SET };
        let total = (set.len() as u64).pow(n as u32);
        for code in 0..total {
            let mut c = code;
            let entries: Vec<Entry> = (0..n)
                .map(|_| {
                    let e = set[(c % set.len() as u64) as usize];
                    c /= set.len() as u64;
                    e
                })
                .collect();
            for table in &tables {
                for start in 0..n {
                    for len in 0..=n + 2 {
                        for offset in 0..=len {
                            for cap in [1, 3, 8] {
                                let mut case =
                                    Case { cap, start, offset, len, stop: Stop::Never, entries: entries.clone(), table: table.clone() };
                                run.emit(w, &case);
                                k += 1;
                                if k % 4 == 0 {
                                    let at = 1 + (k / 4 % 3) as usize;
                                    case.stop = if k / 12 % 3 == 0 { Stop::Arg(at) } else { Stop::Ok(at) };
                                    run.emit(w, &case);
                                }
                            }
                        }
                    }
                }
            }
        }
    }
}

fn random_case(rng: &mut Rng) -> Case {
    let n = match rng.below(4) {
        0 => rng.range(1, 9),
        1 => rng.range(9, 25),
        _ => rng.range(16, 41),
    };
    let nclasses = match rng.below(3) {
        0 => 2,
        1 => 3,
        _ => 8,
    };
    let preserved = [0u64, 1, 1, 2, 4][rng.below(5) as usize]; // reserved: x in 12
    let entries: Vec<Entry> = (0..n)
        .map(|_| {
            let free = match rng.below(12) {
                0 => 0,
                1 => 1,
                2 => rng.range(1, TF / 2),
                3 => TF / 2 - 1,
                4 | 5 => TF / 2,
                6 => rng.range(TF / 2, TF),
                7 => TF - 1,
                8..=10 => TF,
                _ => {
                    if rng.chance(1, 4) {
                        rng.range(TF + 1, 1 << 28)
                    } else {
                        TF
                    }
                }
            };
            (free, rng.below(12) < preserved, rng.below(nclasses) as u8)
        })
        .collect();
    let table = random_table(rng, nclasses as usize);
    let cap = match rng.below(8) {
        0 | 1 => 1,
        2..=4 => 3,
        5 | 6 => 8,
        _ => rng.range(1, 9),
    };
    // search_and_reserve: near = max(ntrees / 16, 4), start aligned down to the power of two >= 2 * near
    let near = (n / 16).max(4);
    let start = match rng.below(8) {
        0..=3 => rng.range(0, n),
        4..=6 => {
            let a = (2 * near).next_power_of_two();
            rng.range(0, n) / a * a
        }
        _ => rng.range(n, 3 * n + 1),
    };
    let offset = rng.below(2) as usize;
    let len = match rng.below(8) {
        0..=2 => near,
        3..=5 => n,
        6 => rng.range(0, n + 3),
        _ => n + rng.range(0, 3),
    };
    let stop = match rng.below(8) {
        0 => Stop::Ok(rng.range(1, 7)),
        1 => Stop::Arg(rng.range(1, 7)),
        _ => Stop::Never,
    };
    Case { cap, start, offset: offset.min(len), len, stop, entries, table }
}

fn main() {
    // the code under test may panic: keep the transcript readable
    std::panic::set_hook(Box::new(|_| {}));
    let args = Args::parse();
    let seed = args.num("seed", 1);
    let mut w = out(args.get("out"));
    let mut run = Runner { worlds: (0..=MAX_TREES).map(|_| None).collect(), cnt: 0 };
    let mut rng = Rng::new(seed ^ 0x5ea2c4);

    if let Some(f) = args.get("from") {
        for line in std::fs::read_to_string(f).expect("read --from").lines() {
            let t: Vec<&str> = line.split_whitespace().collect();
            if let Some(c) = parse_case(&t) {
                run.emit(&mut *w, &c);
            }
        }
    }
    let full = args.num("exh-full", 0) as usize;
    let small = args.num("exh-small", 0) as usize;
    if full > 0 || small > 0 {
        exhaustive(&mut run, &mut *w, &mut rng, args.num("exh-min", 1) as usize, full, small, args.num("tables", 4) as usize);
    }
    let exhaustive = run.cnt;
    for _ in 0..args.num("random", 0) {
        let c = random_case(&mut rng);
        run.emit(&mut *w, &c);
    }
    w.flush().unwrap();
    eprintln!("searchrun: TREE_FRAMES={TF} before-random={exhaustive} total={}", run.cnt);
}
