//! Concurrent (small-step) correspondence harness of the lower allocator (machine M1, LowerMachine.v).
//!
//! 1-4 real OS threads share ONE allocator and run under a deterministic baton-passing scheduler
//! that is driven by the `verif` hooks of `Atom`: a worker blocks in the `before` hook (and at the
//! boundary between two calls) until the scheduler grants it exactly one step.  A granted worker
//! runs from its scheduling point through one atomic access up to its next scheduling point, so at
//! any time exactly one thread runs and an execution is a function of (scenario, schedule).  The
//! scheduler is not a thread of its own: whoever holds the baton records its step, asks the
//! schedule source for the next thread and either continues itself (no context switch) or wakes
//! that thread and blocks; the main thread only starts a run and collects its transcript.  A schedule is a list of thread ids; an entry
//! is either "start the next call" (no memory access, `CALL` line; `mstep` of an idle thread) or
//! "one atomic access" (`S` line).
//!
//! Transcript (one block per run):
//!   RUN <n> scenario=<name> mode=<mode>
//!   CFG huge_order=.. tree_huge=.. frames=.. init=free|alloc threads=N
//!   PRE <get s o|getat f o|put f o> <result>          sequential prologue (main thread, no hooks)
//!   CALL <tid> get <start_row> <order> | getat <frame> <order> | put <frame> <order>
//!   S <tid> <load|cas|store|swap|rmw> <ent|row> <huge> <row> <bitoff> <width> <found hex> <new hex|-> <ok>
//!       (`new` of a failed CAS is `-`: the hooks do not see the value it wanted to write)
//!   X <tid> <kind> <trees|local|lowerpad|other> <byte offset> <width> <found> <new|-> <ok>   access outside lower
//!   RET <tid> ok <frame> | ok | err mem|arg|init | panic <file:line> <msg>
//!   SNAP <step> ents=.. rows=.. stats=ff,fh,ft [tstats=<fast free> validate=ok|panic ..] | SNAP <step> panic <file:line> <msg>
//!       (--snapshots) a crash here: the lower buffer is copied and recovered (`Init::Recover`, fresh
//!       zeroed trees/local buffers); printed after the prologue and after every step that wrote to
//!       the lower buffer, i.e. once for every memory state = before every write and at the end
//!   SOLO <tid> steps=<n> before=<steps of the call before the freeze> frozen_at=<k> budget=<B> result=<..>
//!       (freeze mode, after the RET of the call that ran alone)
//!   HFAIL <text>                                        harness-side oracle
//!   SCHED <tid,tid,...>                                 the schedule that was executed
//!   END ents=<hex u16,...> rows=<row,row,..;row,...>
//!
//! Modes (`--mode`):
//!   exhaustive  all schedules of a scenario with at most `--preemptions P` preemptions (DFS; a
//!               preemption = switching away from a thread in the middle of a call)
//!   pct         `--runs N` PCT schedules (random priorities, up to `--depth d` - 1 change points), `--seed`
//!   replay      `--schedule 0,0,1,..`; entries of threads that cannot move are skipped, afterwards
//!               the remaining threads run round-robin
//!   freeze      after every prefix of a base schedule (`--schedule`, or round-robin + `--runs` PCT
//!               schedules; `--sample m` points per base) every in-flight call runs alone: SOLO lines,
//!               `HFAIL solo budget` beyond `--budget B` steps
//! Scenario groups: `--scenario all` = the ungrouped scenarios of the `--api`; `--scenario online-race` = the group of the
//! change_tree(Online) races (`--list --scenario online-race` lists it, lines end in `group=online-race`).
//! A run longer than `--max-steps` (default 5000) scheduled steps is reported as `HFAIL step limit: ..` (a call that does not
//! terminate); its transcript ends after SCHED and schedrun stops (the worker threads cannot be resumed).
//! `--shard i/n` partitions the schedules of a mode (DFS subtrees / run indices) for parallel runs.
//! Scenarios: `--scenario name,name|all` (`--list`), `--scenario-file f` (NAME/INIT/TREES|FRAMES/CLASSING/PRE/CALL
//! lines, or a transcript block).  `putlast <order>` frees the block of the thread's latest get.
//!
//! `--api upper` selects the scenarios (names `u-*`) whose threads call the WHOLE allocator:
//!   uget <frame|-> <order> <class> <local|->      LLFree::get          -> `ok <frame> <class>`
//!   uput <frame> <order> <class> <local|->        LLFree::put
//!   udrain                                        LLFree::drain
//!   uchange <id|-> <class|-> <free> <newclass|-> <online|offline|->   LLFree::change_tree
//!   (scenario-side: uputlast, uputpre <pre idx> <off> .., ugetpre <pre idx> <off> .. refer to earlier results)
//! with a classing per scenario (`CFG .. api=upper default=<c> policy=<simple|movable|zeroed|custom> classes=<c>:<n>,..`).
//! Hooked addresses of the trees buffer (u32 per tree) and of the local buffer (one 64-byte `Local` per slot,
//! in classing order) become `S <tid> <kind> tree <i> 0 0 32 ..` and `S <tid> <kind> slot <class> <idx> 0 64 ..`
//! lines; END also dumps `trees=<hex u32,..> slots=<hex u64,..>`.  After a run without panic the main thread adds
//! quiescent observations: `POST stats ..`, `POST tree_stats ..`, `POST validate ok|panic ..`, then `POST udrain` and
//! probe allocations `POST uget .. <result>` (a base get per class, targeted gets of a free frame, a held frame and a
//! free huge frame), `POST stats ..` and `POSTEND <dump>` (driver/ustep.ml: C04, C10).
use std::cell::{Cell, RefCell};
use std::collections::HashSet;
use std::fmt::Write as FmtWrite;
use std::io::Write;
use std::panic::{AssertUnwindSafe, catch_unwind};
use std::sync::{Arc, Mutex};
use std::sync::atomic::{AtomicU8, AtomicU16, AtomicU32, AtomicU64, AtomicUsize, Ordering};
use std::thread::Thread;

use llfree::verif::{Kind, lower_get, lower_put, set_hooks};
use llfree::{
    Alloc, Class, Classing, Error, FrameId, HUGE_FRAMES, HUGE_ORDER, Init, LLFree, MetaData, Policy, PolicyFn, Request, TREE_FRAMES,
    TREE_HUGE, TREE_ORDER, TreeChange, TreeId, TreeMatch, TreeOperation,
};
use llfree_verif_harness::{Args, Rng, out};

const MAXT: usize = 4;
const NONE: usize = usize::MAX;
const ROWS: usize = HUGE_FRAMES / 64;
/// bytes of one `Align<Bitfield>` and of one `Align<[HugeEntry; TREE_HUGE]>`
const BF_SIZE: usize = (HUGE_FRAMES / 8).next_multiple_of(64);
const TAB_SIZE: usize = (2 * TREE_HUGE).next_multiple_of(64);

// ------------------------------------------------------------------------------------------------
// calls, results, events
// ------------------------------------------------------------------------------------------------
#[derive(Clone, Copy, Debug, PartialEq, Eq)]
enum CallSpec {
    Get(usize, usize),
    GetAt(usize, usize),
    Put(usize, usize),
    /// free the block returned by this thread's most recent successful get (dropped if there is none)
    PutLast(usize),
    // ---- the upper API (`--api upper` scenarios): LLFree::get/put/drain/change_tree
    UGet { frame: Option<usize>, order: usize, class: u8, local: Option<usize> },
    UPut { frame: usize, order: usize, class: u8, local: Option<usize> },
    /// free the block of this thread's most recent successful get
    UPutLast { order: usize, class: u8, local: Option<usize> },
    /// free (part of) the block returned by prologue call `idx`: frame = result + off
    UPutPre { idx: usize, off: usize, order: usize, class: u8, local: Option<usize> },
    /// targeted get of (part of) the block returned by prologue call `idx`
    UGetPre { idx: usize, off: usize, order: usize, class: u8, local: Option<usize> },
    UDrain,
    /// op: 0 none, 1 online, 2 offline
    UChange { id: Option<usize>, mclass: Option<u8>, mfree: usize, cclass: Option<u8>, op: u8 },
}
impl CallSpec {
    fn is_upper(&self) -> bool {
        !matches!(self, CallSpec::Get(..) | CallSpec::GetAt(..) | CallSpec::Put(..) | CallSpec::PutLast(..))
    }
}

#[derive(Clone, Debug, PartialEq, Eq)]
enum Res {
    Frame(usize),
    /// upper get: frame and class
    Frame2(usize, u8),
    Unit,
    Err(&'static str),
    Panic(String),
}
impl Res {
    fn text(&self) -> String {
        match self {
            Res::Frame(f) => format!("ok {f}"),
            Res::Frame2(f, c) => format!("ok {f} {c}"),
            Res::Unit => "ok".into(),
            Res::Err(e) => format!("err {e}"),
            Res::Panic(m) => format!("panic {m}"),
        }
    }
}

fn call_text(c: CallSpec) -> String {
    match c {
        CallSpec::Get(s, o) => format!("get {s} {o}"),
        CallSpec::GetAt(f, o) => format!("getat {f} {o}"),
        CallSpec::Put(f, o) => format!("put {f} {o}"),
        CallSpec::PutLast(o) => format!("putlast {o}"),
        CallSpec::UGet { frame, order, class, local } => format!("uget {} {order} {class} {}", opt(frame), opt(local)),
        CallSpec::UPut { frame, order, class, local } => format!("uput {frame} {order} {class} {}", opt(local)),
        CallSpec::UPutLast { order, class, local } => format!("uputlast {order} {class} {}", opt(local)),
        CallSpec::UPutPre { idx, off, order, class, local } => format!("uputpre {idx} {off} {order} {class} {}", opt(local)),
        CallSpec::UGetPre { idx, off, order, class, local } => format!("ugetpre {idx} {off} {order} {class} {}", opt(local)),
        CallSpec::UDrain => "udrain".into(),
        CallSpec::UChange { id, mclass, mfree, cclass, op } => format!(
            "uchange {} {} {mfree} {} {}",
            opt(id),
            opt(mclass.map(|c| c as usize)),
            opt(cclass.map(|c| c as usize)),
            ["-", "online", "offline"][op as usize]
        ),
    }
}
fn opt(x: Option<usize>) -> String {
    match x {
        Some(v) => v.to_string(),
        None => "-".into(),
    }
}

enum Ev {
    Call(usize, CallSpec),
    Step { tid: usize, kind: Kind, addr: usize, width: usize, pre: u64, val: u64, newv: u64, ok: bool },
    Ret(usize, Res),
}

// ------------------------------------------------------------------------------------------------
// shared state between the scheduler (main) and the workers
// ------------------------------------------------------------------------------------------------
static GO: [AtomicU32; MAXT] = [const { AtomicU32::new(0) }; MAXT];
static BACK: AtomicU32 = AtomicU32::new(0);
static SPIN: AtomicUsize = AtomicUsize::new(100);
static ALLOC: AtomicUsize = AtomicUsize::new(0);
/// a run longer than this many scheduled steps is reported as non-terminating (`--max-steps`)
static MAX_STEPS: AtomicUsize = AtomicUsize::new(5000);
static EVENTS: Mutex<Vec<Ev>> = Mutex::new(Vec::new());
static NEXT_CALL: Mutex<[Option<CallSpec>; MAXT]> = Mutex::new([None; MAXT]);
static THREADS: Mutex<Vec<Thread>> = Mutex::new(Vec::new());
/// the run in progress: owned by whoever holds the baton
static DRV: Mutex<Option<Driver>> = Mutex::new(None);

struct Driver {
    ex: Exec<'static>,
    chooser: Box<dyn Chooser>,
}
unsafe impl Send for Driver {}

/// a schedule source: which thread makes the next step (None: the run is over)
trait Chooser {
    fn next(&mut self, ex: &mut Exec) -> Option<usize>;
}

thread_local! {
    static TID: Cell<usize> = const { Cell::new(NONE) };
    static PRE: Cell<u64> = const { Cell::new(0) };
    static PANIC_MSG: RefCell<String> = const { RefCell::new(String::new()) };
    static MAIN_T: RefCell<Option<Thread>> = const { RefCell::new(None) };
    /// inside the scheduler (snapshots run allocator code on this thread): hooks pass through
    static IN_SCHED: Cell<bool> = const { Cell::new(false) };
    static WORKERS: RefCell<Vec<Thread>> = const { RefCell::new(Vec::new()) };
}

fn read_mem(addr: usize, width: usize) -> u64 {
    unsafe {
        match width {
            1 => (*(addr as *const AtomicU8)).load(Ordering::SeqCst) as u64,
            2 => (*(addr as *const AtomicU16)).load(Ordering::SeqCst) as u64,
            4 => (*(addr as *const AtomicU32)).load(Ordering::SeqCst) as u64,
            8 => (*(addr as *const AtomicU64)).load(Ordering::SeqCst),
            _ => 0,
        }
    }
}

fn wait_flag(f: &AtomicU32) {
    let spin = SPIN.load(Ordering::Relaxed);
    let mut n = 0usize;
    loop {
        if f.load(Ordering::Acquire) == 1 {
            f.store(0, Ordering::Relaxed);
            return;
        }
        if n < spin {
            n += 1;
            std::hint::spin_loop();
        } else {
            // futex wait; a stale token only costs one more round
            std::thread::park();
        }
    }
}

/// hand the baton to worker `t`
fn wake(t: usize) {
    GO[t].store(1, Ordering::Release);
    WORKERS.with(|w| {
        let w = w.borrow();
        if let Some(th) = w.get(t) {
            th.unpark();
        } else {
            drop(w);
            let ths = THREADS.lock().unwrap().clone();
            ths[t].unpark();
            WORKERS.with(|w| *w.borrow_mut() = ths);
        }
    });
}

fn wake_main() {
    BACK.store(1, Ordering::Release);
    MAIN_T.with(|m| {
        if let Some(t) = m.borrow().as_ref() {
            t.unpark()
        }
    });
}

/// The holder of the baton is at a scheduling point: record what it did, ask for the next thread.
/// Returns true if `me` continues (it was chosen again); otherwise the baton has been passed on.
fn sched_point(me: usize) -> bool {
    IN_SCHED.with(|s| s.set(true));
    let next = {
        let mut g = DRV.lock().unwrap();
        let d = g.as_mut().expect("scheduling point without a run");
        d.ex.absorb();
        if d.ex.sched.len() >= MAX_STEPS.load(Ordering::Relaxed) && d.ex.any_enabled() {
            // a call that does not terminate (livelock): the run cannot be completed; main reports it and stops
            d.ex.abort();
            None
        } else {
            let n = d.chooser.next(&mut d.ex);
            if let Some(t) = n {
                d.ex.prepare(t);
            }
            n
        }
    };
    IN_SCHED.with(|s| s.set(false));
    match next {
        Some(t) if t == me => true,
        Some(t) => {
            wake(t);
            false
        }
        None => {
            wake_main();
            false
        }
    }
}

fn hook_before(_kind: Kind, addr: usize, width: usize) {
    let tid = TID.with(|t| t.get());
    if tid == NONE || IN_SCHED.with(|s| s.get()) {
        return;
    }
    if !sched_point(tid) {
        wait_flag(&GO[tid]);
    }
    PRE.with(|p| p.set(read_mem(addr, width)));
}

fn hook_after(kind: Kind, addr: usize, width: usize, value: u64, ok: bool) {
    let tid = TID.with(|t| t.get());
    if tid == NONE || IN_SCHED.with(|s| s.get()) {
        return;
    }
    let newv = read_mem(addr, width);
    let pre = PRE.with(|p| p.get());
    EVENTS.lock().unwrap().push(Ev::Step { tid, kind, addr, width, pre, val: value, newv, ok });
}

fn err_text(e: Error) -> &'static str {
    match e {
        Error::Memory => "mem",
        Error::Argument => "arg",
        Error::Initialization => "init",
    }
}

fn exec(alloc: &LLFree, c: CallSpec) -> Res {
    match c {
        CallSpec::Get(s, o) => match lower_get(alloc, s, o, None) {
            Ok(f) => Res::Frame(f),
            Err(e) => Res::Err(err_text(e)),
        },
        CallSpec::GetAt(f, o) => match lower_get(alloc, f / 64, o, Some(f)) {
            Ok(f) => Res::Frame(f),
            Err(e) => Res::Err(err_text(e)),
        },
        CallSpec::Put(f, o) => match lower_put(alloc, f, o) {
            Ok(()) => Res::Unit,
            Err(e) => Res::Err(err_text(e)),
        },
        CallSpec::PutLast(_) | CallSpec::UPutLast { .. } | CallSpec::UPutPre { .. } | CallSpec::UGetPre { .. } => unreachable!("resolved by the scheduler"),
        CallSpec::UGet { frame, order, class, local } => match alloc.get(frame.map(FrameId), Request::new(order, Class(class), local)) {
            Ok((f, c)) => Res::Frame2(f.0, c.0),
            Err(e) => Res::Err(err_text(e)),
        },
        CallSpec::UPut { frame, order, class, local } => match alloc.put(FrameId(frame), Request::new(order, Class(class), local)) {
            Ok(()) => Res::Unit,
            Err(e) => Res::Err(err_text(e)),
        },
        CallSpec::UDrain => {
            alloc.drain();
            Res::Unit
        }
        CallSpec::UChange { id, mclass, mfree, cclass, op } => {
            let m = TreeMatch { id: id.map(TreeId), class: mclass.map(Class), free: mfree };
            let operation = match op {
                1 => Some(TreeOperation::Online),
                2 => Some(TreeOperation::Offline),
                _ => None,
            };
            match alloc.change_tree(m, TreeChange { class: cclass.map(Class), operation }) {
                Ok(()) => Res::Unit,
                Err(e) => Res::Err(err_text(e)),
            }
        }
    }
}

// ------------------------------------------------------------------------------------------------
// classings of the upper-API scenarios (same names as seqrun / Policies.v)
// ------------------------------------------------------------------------------------------------
#[derive(Clone, Copy, Debug, PartialEq, Eq)]
enum Pol {
    Simple,
    Movable,
    Zeroed,
    Custom,
}
impl Pol {
    fn name(self) -> &'static str {
        match self {
            Pol::Simple => "simple",
            Pol::Movable => "movable",
            Pol::Zeroed => "zeroed",
            Pol::Custom => "custom",
        }
    }
    fn parse(s: &str) -> Self {
        match s {
            "simple" | "zeroslot" => Pol::Simple,
            "movable" => Pol::Movable,
            "zeroed" => Pol::Zeroed,
            "custom" => Pol::Custom,
            _ => panic!("schedrun: unknown policy {s}"),
        }
    }
    fn func(self) -> PolicyFn {
        match self {
            Pol::Simple => Classing::simple(1).0.policy,
            Pol::Movable => Classing::movable(1).0.policy,
            Pol::Zeroed => zeroed_policy,
            Pol::Custom => custom_policy,
        }
    }
}
/// eval/tests/integration.rs `zeroed_steals_from_huge` (Policies.v `pol_zeroed`)
fn zeroed_policy(requested: Class, target: Class, free: usize) -> Policy {
    if requested.0 > target.0 {
        return Policy::Steal;
    } else if requested.0 < target.0 {
        return Policy::Demote;
    }
    match free {
        f if f >= TREE_FRAMES / 2 => Policy::Match(1),
        f if f >= TREE_FRAMES / 64 => Policy::Match(u8::MAX),
        _ => Policy::Match(0),
    }
}
/// requested 0 on target 2 and requested 2 on target 0 are unusable (Policies.v `pol_custom`)
fn custom_policy(requested: Class, target: Class, free: usize) -> Policy {
    if (requested.0 == 0 && target.0 == 2) || (requested.0 == 2 && target.0 == 0) {
        return Policy::Invalid;
    }
    zeroed_policy(requested, target, free)
}

#[derive(Clone, Debug)]
struct UCfg {
    pol: Pol,
    default: u8,
    classes: Vec<(u8, usize)>,
}
impl UCfg {
    fn lower_only() -> Self {
        // Classing::simple(1)
        UCfg { pol: Pol::Simple, default: 1, classes: vec![(0, 1), (1, 1)] }
    }
    fn classing(&self) -> Classing {
        let cl: Vec<(Class, usize)> = self.classes.iter().map(|&(c, n)| (Class(c), n)).collect();
        Classing::new(&cl, Class(self.default), self.pol.func())
    }
    fn nslots(&self) -> usize {
        self.classes.iter().map(|c| c.1).sum()
    }
    /// (class, index) of the slot at position `gi` of the local buffer
    fn slot_of(&self, gi: usize) -> Option<(u8, usize)> {
        let mut base = 0;
        for &(c, n) in &self.classes {
            if gi < base + n {
                return Some((c, gi - base));
            }
            base += n;
        }
        None
    }
    fn text(&self) -> String {
        let cl: Vec<String> = self.classes.iter().map(|(c, n)| format!("{c}:{n}")).collect();
        format!("default={} policy={} classes={}", self.default, self.pol.name(), cl.join(","))
    }
}
/// the local buffer holds up to this many slots (one cache line each)
const MAX_SLOTS: usize = 32;

fn exec_caught(alloc: &LLFree, c: CallSpec) -> Res {
    let q = QUIET.with(|t| t.replace(true));
    let r = catch_unwind(AssertUnwindSafe(|| exec(alloc, c)));
    QUIET.with(|t| t.set(q));
    match r {
        Ok(r) => r,
        Err(_) => Res::Panic(PANIC_MSG.with(|m| m.borrow().clone())),
    }
}

fn worker(tid: usize, main: Thread) {
    TID.with(|t| t.set(tid));
    MAIN_T.with(|m| *m.borrow_mut() = Some(main));
    let mut granted = false;
    loop {
        // the boundary between two calls is a scheduling point
        if !granted {
            wait_flag(&GO[tid]);
        }
        let c = NEXT_CALL.lock().unwrap()[tid].take().expect("granted without a call");
        EVENTS.lock().unwrap().push(Ev::Call(tid, c));
        let alloc = unsafe { &*(ALLOC.load(Ordering::Acquire) as *const LLFree<'static>) };
        let r = exec_caught(alloc, c);
        EVENTS.lock().unwrap().push(Ev::Ret(tid, r));
        granted = sched_point(tid);
    }
}

/// main thread: run `ex` under `chooser` to completion
fn drive(ex: Exec<'static>, chooser: Box<dyn Chooser>) -> Done {
    *DRV.lock().unwrap() = Some(Driver { ex, chooser });
    if !sched_point(NONE) {
        // the baton is with the workers until the schedule source says the run is over
        wait_flag(&BACK);
    }
    let d = DRV.lock().unwrap().take().expect("driver");
    d.ex.finish()
}

// ------------------------------------------------------------------------------------------------
// buffers and layout
// ------------------------------------------------------------------------------------------------
struct Bufs {
    lower: *mut u8,
    lower_len: usize,
    trees: *mut u8,
    trees_len: usize,
    local: *mut u8,
    local_len: usize,
}
impl Bufs {
    fn new(frames: usize, classing: &Classing) -> Self {
        let m = LLFree::metadata_size(classing, frames);
        let a = |n: usize| llfree::util::aligned_buf(n.max(64)).as_mut_ptr();
        let local_len = MAX_SLOTS * 64;
        Bufs { lower: a(m.lower), lower_len: m.lower, trees: a(m.trees), trees_len: m.trees, local: a(local_len), local_len }
    }
    fn zero(&self) {
        unsafe {
            std::ptr::write_bytes(self.lower, 0, self.lower_len);
            std::ptr::write_bytes(self.trees, 0, self.trees_len);
            std::ptr::write_bytes(self.local, 0, self.local_len);
        }
    }
    fn meta(&self) -> MetaData<'static> {
        unsafe {
            MetaData {
                local: std::slice::from_raw_parts_mut(self.local, self.local_len),
                trees: std::slice::from_raw_parts_mut(self.trees, self.trees_len),
                lower: std::slice::from_raw_parts_mut(self.lower, self.lower_len),
            }
        }
    }
}

fn nbf(frames: usize) -> usize {
    frames.div_ceil(HUGE_FRAMES)
}
fn ntab(frames: usize) -> usize {
    frames.div_ceil(TREE_FRAMES)
}

/// `ents=.. rows=..` of a lower buffer
fn dump_state(lower: *const u8, frames: usize) -> String {
    let mut s = String::with_capacity(256);
    s.push_str("ents=");
    let tbase = nbf(frames) * BF_SIZE;
    for t in 0..ntab(frames) {
        for j in 0..TREE_HUGE {
            if t + j > 0 {
                s.push(',');
            }
            let v = read_mem(lower as usize + tbase + t * TAB_SIZE + 2 * j, 2);
            let _ = write!(s, "{v:x}");
        }
    }
    s.push_str(" rows=");
    for h in 0..nbf(frames) {
        if h > 0 {
            s.push(';');
        }
        for r in 0..ROWS {
            if r > 0 {
                s.push(',');
            }
            let v = read_mem(lower as usize + h * BF_SIZE + 8 * r, 8);
            let _ = write!(s, "{v:x}");
        }
    }
    s
}

/// where a hooked address lies
enum Loc {
    Row { h: usize, r: usize, bit: usize },
    Ent { h: usize },
    Tree { i: usize },
    Slot { class: u8, idx: usize },
    Other(&'static str, usize),
}

// ------------------------------------------------------------------------------------------------
// scenarios
// ------------------------------------------------------------------------------------------------
#[derive(Clone, Debug)]
struct Scenario {
    name: String,
    alloc_all: bool,
    frames: usize,
    pre: Vec<CallSpec>,
    threads: Vec<Vec<CallSpec>>,
    /// classing (the lower-API scenarios use Classing::simple(1))
    cfg: UCfg,
    /// the threads use the upper API
    upper: bool,
    /// scenarios of a named group are not part of `--scenario all`; `--scenario <group>` selects them
    group: &'static str,
}

fn builtin() -> Vec<Scenario> {
    use CallSpec::*;
    let hf = HUGE_FRAMES;
    let ho = HUGE_ORDER;
    let to = TREE_ORDER;
    let tf = TREE_FRAMES;
    let rows_h = ROWS; // rows per huge frame
    let v = RefCell::new(Vec::<Scenario>::new());
    let add_frames = |name: &str, alloc_all: bool, frames: usize, pre: Vec<CallSpec>, threads: Vec<Vec<CallSpec>>| {
        v.borrow_mut().push(Scenario { name: name.into(), alloc_all, frames, pre, threads, cfg: UCfg::lower_only(), upper: false, group: "" });
    };
    let add = |name: &str, alloc_all: bool, trees: usize, pre: Vec<CallSpec>, threads: Vec<Vec<CallSpec>>| {
        add_frames(name, alloc_all, trees * tf, pre, threads)
    };
    // --- two base gets on the same tree
    add("get0-get0", false, 1, vec![], vec![vec![Get(0, 0)], vec![Get(0, 0)]]);
    // only frame 63 of row 0 is free: one thread takes it, the other moves on to row 1
    add(
        "get0-get0-lastbit",
        false,
        1,
        vec![GetAt(0, 5), GetAt(32, 4), GetAt(48, 3), GetAt(56, 2), GetAt(60, 1), GetAt(62, 0)],
        vec![vec![Get(0, 0)], vec![Get(0, 0)]],
    );
    add("get1-get2", false, 1, vec![], vec![vec![Get(0, 1)], vec![Get(0, 2)]]);
    add("get0-get0-2trees", false, 2, vec![], vec![vec![Get(0, 0)], vec![Get(tf / 64, 0)]]);
    // --- order 0 vs multi-row orders in the same huge frame  [D12]
    add("get7-get0", false, 1, vec![], vec![vec![Get(0, 7)], vec![Get(0, 0)]]);
    add("get8-get0", false, 1, vec![], vec![vec![Get(0, 8)], vec![Get(0, 0)]]);
    // the order-0 get starts in row 1: the order-7 get sets row 0, fails on row 1, rolls back
    add("get7-get0row1", false, 1, vec![], vec![vec![Get(0, 7)], vec![Get(1, 0)]]);
    add("get8-get0row2", false, 1, vec![], vec![vec![Get(0, 8)], vec![Get(2, 0)]]);
    add("get7-get7", false, 1, vec![], vec![vec![Get(0, 7)], vec![Get(0, 7)]]);
    add("get8-get7", false, 1, vec![], vec![vec![Get(0, 8)], vec![Get(0, 7)]]);
    add("get7-get6", false, 1, vec![], vec![vec![Get(0, 7)], vec![Get(0, 6)]]);
    // row 1 is taken as a whole (order 6) between the order-7 get's check of rows 0-1 and its CAS of row 1: the rollback must
    // leave row 1 alone; the follow-up gets reach row 1 again
    add("get7-getat6row1", false, 1, vec![], vec![vec![Get(0, 7), Get(1, 6)], vec![GetAt(64, 6)]]);
    add("get7-get6-then6", false, 1, vec![], vec![vec![Get(0, 7), Get(0, 6), Get(0, 6)], vec![Get(0, 6)]]);
    add("get8-getat6row2", false, 1, vec![], vec![vec![Get(0, 8), Get(2, 6)], vec![GetAt(128, 6)]]);
    // --- huge order vs base order
    add("get9-get0", false, 1, vec![], vec![vec![Get(0, ho)], vec![Get(0, 0)]]);
    add("get9-get9", false, 1, vec![], vec![vec![Get(0, ho)], vec![Get(0, ho)]]);
    // --- get_at of the same frame twice
    add("getat0-getat0", false, 1, vec![], vec![vec![GetAt(5, 0)], vec![GetAt(5, 0)]]);
    add("getat0-getat0-row", false, 1, vec![], vec![vec![GetAt(5, 0)], vec![GetAt(6, 0)]]);
    // a targeted get of a HELD block (it has to fail without ever touching the bits) vs untargeted gets in the same row
    add("getat-held0-vs-get0", false, 1, vec![GetAt(0, 0)], vec![vec![GetAt(0, 0)], vec![Get(0, 0), Get(0, 0)]]);
    add("getat-held1-vs-get1", false, 1, vec![GetAt(0, 1)], vec![vec![GetAt(0, 1)], vec![Get(0, 1), Get(0, 1)]]);
    add("getat-held2-vs-get2", false, 1, vec![GetAt(4, 2)], vec![vec![GetAt(4, 2)], vec![Get(0, 2), Get(0, 2), Get(0, 0)]]);
    add("put-unheld0-vs-put0", false, 1, vec![GetAt(1, 0)], vec![vec![GetAt(0, 0), PutLast(0)], vec![Put(1, 0), Get(0, 0)]]);
    add("getat3-getat3", false, 1, vec![], vec![vec![GetAt(8, 3)], vec![GetAt(8, 3)]]);
    add("getat5-getat4", false, 1, vec![], vec![vec![GetAt(32, 5)], vec![GetAt(48, 4)]]);
    add("getat7-getat7", false, 1, vec![], vec![vec![GetAt(128, 7)], vec![GetAt(128, 7)]]);
    add("getat7-getat0", false, 1, vec![], vec![vec![GetAt(128, 7)], vec![GetAt(192, 0)]]);
    add("getat9-getat9", false, 1, vec![], vec![vec![GetAt(0, ho)], vec![GetAt(0, ho)]]);
    add("getat9-get0", false, 1, vec![], vec![vec![GetAt(0, ho)], vec![Get(0, 0)]]);
    // --- get vs put in the same row
    add("put0-get0", false, 1, vec![Get(0, 0)], vec![vec![Put(0, 0)], vec![Get(0, 0)]]);
    add("put3-get3", false, 1, vec![GetAt(8, 3), GetAt(0, 3)], vec![vec![Put(8, 3)], vec![Get(0, 3)]]);
    add("put0-put0-row", false, 1, vec![Get(0, 0), Get(0, 0)], vec![vec![Put(0, 0)], vec![Put(1, 0)]]);
    add("put3-put3-row", false, 1, vec![GetAt(8, 3), GetAt(16, 3)], vec![vec![Put(8, 3)], vec![Put(16, 3)]]);
    add("put7-get7", false, 1, vec![Get(0, 7)], vec![vec![Put(0, 7)], vec![Get(0, 7)]]);
    add("put7-get0", false, 1, vec![Get(0, 7)], vec![vec![Put(0, 7)], vec![Get(0, 0)]]);
    // the huge frame is full: a get succeeds only after the put
    add(
        "put0-get0-full",
        false,
        1,
        vec![GetAt(0, ho - 1), GetAt(hf / 2, ho - 1)],
        vec![vec![Put(0, 0)], vec![Get(0, 0)]],
    );
    add("getput-getput", false, 1, vec![], vec![vec![Get(0, 0), PutLast(0)], vec![Get(0, 0), PutLast(0)]]);
    add("getput7-getput7", false, 1, vec![], vec![vec![Get(0, 7), PutLast(7)], vec![Get(0, 7), PutLast(7)]]);
    add("getput3-getput0", false, 1, vec![], vec![vec![Get(0, 3), PutLast(3)], vec![Get(0, 0), PutLast(0)]]);
    // --- puts of two different parts of one held huge block  [D13]
    add("split-put0-put0", true, 1, vec![], vec![vec![Put(5, 0)], vec![Put(6, 0)]]);
    add("split-put7-put7", true, 1, vec![], vec![vec![Put(0, 7)], vec![Put(128, 7)]]);
    add("split-put3-put0", true, 1, vec![], vec![vec![Put(8, 3)], vec![Put(64, 0)]]);
    // the first free releases a whole row, which a stale split attempt of the second one can fill again
    add("split-put6-put0", true, 1, vec![], vec![vec![Put(0, 6)], vec![Put(64, 0)]]);
    add("split-put0-get0", true, 1, vec![], vec![vec![Put(5, 0)], vec![Get(0, 0)]]);
    // the split of a huge block of TREE 1 (child 0) while huge frame 0 of tree 0 (same child index) holds small blocks:
    // a crash inside the split window must not touch tree 0 (recovery repairs the bitfield of the marker entry)
    add(
        "split-put0-tree1",
        false,
        2,
        vec![GetAt(0, 0), GetAt(1, 0), GetAt(64, 3), GetAt(tf, ho)],
        vec![vec![Put(tf + 5, 0)], vec![Get(0, 0)]],
    );
    // --- put order 9 vs get order 9
    add("put9-get9", false, 1, vec![Get(0, ho)], vec![vec![Put(0, ho)], vec![Get(0, ho)]]);
    add("put9-getat9", true, 1, vec![], vec![vec![Put(0, ho)], vec![GetAt(0, ho)]]);
    add("put9-get0", true, 1, vec![], vec![vec![Put(0, ho)], vec![Get(0, 0)]]);
    // --- gets at tree order racing
    add("getT-getT", false, 1, vec![], vec![vec![Get(0, to)], vec![Get(0, to)]]);
    add("getT-getT-2trees", false, 2, vec![], vec![vec![Get(0, to)], vec![Get(tf / 64, to)]]);
    if TREE_HUGE >= 2 {
        add(
            "split-put0-tree1-child1",
            false,
            2,
            vec![GetAt(hf + 3, 0), GetAt(hf + 128, 6), GetAt(tf + hf, ho)],
            vec![vec![Put(tf + hf + 5, 0)], vec![Put(tf + hf + 64, 0)]],
        );
        // the tree-order get fails on entry 1 and undoes entry 0
        add("getT-get9h1", false, 1, vec![], vec![vec![Get(0, to)], vec![Get(rows_h, ho)]]);
        add("getT-get0h1", false, 1, vec![], vec![vec![Get(0, to)], vec![Get(rows_h, 0)]]);
        add("putT-getT", false, 1, vec![Get(0, to)], vec![vec![Put(0, to)], vec![Get(0, to)]]);
        add("putT-put9t1", false, 2, vec![Get(0, to), Get(tf / 64, ho)], vec![vec![Put(0, to)], vec![Put(tf, ho)]]);
        add("split-put0-put9h1", true, 1, vec![], vec![vec![Put(5, 0)], vec![Put(hf, ho)]]);
        // first huge frame is full: both gets fall through to the second child
        add(
            "get0-get0-child1",
            false,
            1,
            vec![GetAt(0, ho - 1), GetAt(hf / 2, ho - 1)],
            vec![vec![Get(0, 0)], vec![Get(0, 0)]],
        );
    }
    if TREE_HUGE >= 4 {
        add("get10-get10", false, 1, vec![], vec![vec![Get(0, ho + 1)], vec![Get(0, ho + 1)]]);
        add("get10-get9h1", false, 1, vec![], vec![vec![Get(0, ho + 1)], vec![Get(rows_h, ho)]]);
        add("put10-get10", false, 1, vec![Get(0, ho + 1)], vec![vec![Put(0, ho + 1)], vec![Get(0, ho + 1)]]);
    }
    // --- three threads
    add("mix3-get0-get7-get9", false, 1, vec![], vec![vec![Get(0, 0)], vec![Get(0, 7)], vec![Get(0, ho)]]);
    add("mix3-get0-get0-get0", false, 1, vec![], vec![vec![Get(0, 0)], vec![Get(0, 0)], vec![Get(0, 0)]]);
    add(
        "mix3-put0-get0-get1",
        false,
        1,
        vec![Get(0, 0), Get(0, 3)],
        vec![vec![Put(0, 0)], vec![Get(0, 0)], vec![Get(0, 1)]],
    );
    add("mix3-split", true, 1, vec![], vec![vec![Put(5, 0)], vec![Put(64, 6)], vec![Put(6, 0)]]);
    add(
        "mix3-put7-get7-get0",
        false,
        1,
        vec![Get(0, 7)],
        vec![vec![Put(0, 7)], vec![Get(0, 7)], vec![Get(0, 0)]],
    );
    // --- one thread (every schedule is the sequential run) and four threads
    add(
        "one-getput",
        false,
        1,
        vec![],
        vec![vec![Get(0, 0), PutLast(0), Get(0, 3), PutLast(3), Get(0, 7), PutLast(7), Get(0, ho), PutLast(ho), Get(0, to), PutLast(to)]],
    );
    add(
        "mix4-get0-get0-put0-get7",
        false,
        1,
        vec![Get(0, 0)],
        vec![vec![Get(0, 0)], vec![Get(0, 0)], vec![Put(0, 0)], vec![Get(0, 7)]],
    );
    // --- a partial last tree: half a huge frame plus 7 frames behind one whole tree
    let pf = tf + hf / 2 + 7;
    let prow = tf / 64;
    add_frames("partial-get0-get0", false, pf, vec![], vec![vec![Get(prow, 0)], vec![Get(prow, 0)]]);
    add_frames("partial-get6-get7", false, pf, vec![], vec![vec![Get(prow, 6)], vec![Get(prow, 7)]]);
    add_frames("partial-put0-put0", true, pf, vec![], vec![vec![Put(tf + 3, 0)], vec![Put(tf + 4, 0)]]);
    add_frames(
        "partial-getput-lastrow",
        false,
        pf,
        vec![GetAt(tf + hf / 2, 2)],
        vec![vec![Get(prow + hf / 128, 0), PutLast(0)], vec![Put(tf + hf / 2, 2)]],
    );
    if TREE_HUGE >= 2 {
        add(
            "mix3-split-put9-get0",
            true,
            2,
            vec![],
            vec![vec![Put(5, 0)], vec![Put(hf, ho)], vec![Get(0, 0)]],
        );
    }
    let mut all = v.into_inner();
    all.extend(builtin_upper());
    all
}

fn parse_call(t: &[&str]) -> CallSpec {
    let n = |i: usize| -> usize { t.get(i).and_then(|s| s.parse().ok()).unwrap_or_else(|| panic!("bad call {t:?}")) };
    let on = |i: usize| -> Option<usize> { t.get(i).and_then(|s| s.parse().ok()) };
    match t[0] {
        "get" => CallSpec::Get(n(1), n(2)),
        "getat" => CallSpec::GetAt(n(1), n(2)),
        "put" => CallSpec::Put(n(1), n(2)),
        "putlast" => CallSpec::PutLast(n(1)),
        "uget" => CallSpec::UGet { frame: on(1), order: n(2), class: n(3) as u8, local: on(4) },
        "uput" => CallSpec::UPut { frame: n(1), order: n(2), class: n(3) as u8, local: on(4) },
        "uputlast" => CallSpec::UPutLast { order: n(1), class: n(2) as u8, local: on(3) },
        "ugetpre" => CallSpec::UGetPre { idx: n(1), off: n(2), order: n(3), class: n(4) as u8, local: on(5) },
        "uputpre" => CallSpec::UPutPre { idx: n(1), off: n(2), order: n(3), class: n(4) as u8, local: on(5) },
        "udrain" => CallSpec::UDrain,
        "uchange" => CallSpec::UChange {
            id: on(1),
            mclass: on(2).map(|c| c as u8),
            mfree: n(3),
            cclass: on(4).map(|c| c as u8),
            op: match t.get(5).copied() {
                Some("online") => 1,
                Some("offline") => 2,
                _ => 0,
            },
        },
        _ => panic!("bad call {t:?}"),
    }
}

/// scenario file: `NAME x`, `INIT free|alloc`, `FRAMES n` | `TREES n`, `PRE <call>`, `CALL <tid> <call>`
/// (a transcript block works too: RUN/CFG/PRE/CALL lines are understood, the rest is ignored)
fn scenario_from_file(path: &str) -> Scenario {
    let mut s = Scenario {
        name: "file".into(),
        alloc_all: false,
        frames: TREE_FRAMES,
        pre: vec![],
        threads: vec![],
        cfg: UCfg::lower_only(),
        upper: false,
        group: "",
    };
    let call_len = |k: &str| match k {
        "uget" | "uput" => 5,
        "udrain" => 1,
        "uchange" | "uputpre" | "ugetpre" => 6,
        "uputlast" => 4,
        _ => 3,
    };
    for line in std::fs::read_to_string(path).expect("scenario file").lines() {
        let t: Vec<&str> = line.split_whitespace().collect();
        if t.is_empty() || t[0].starts_with('#') {
            continue;
        }
        match t[0] {
            "NAME" => s.name = t[1].into(),
            "INIT" => s.alloc_all = t[1] == "alloc",
            "FRAMES" => s.frames = t[1].parse().expect("frames"),
            "TREES" => s.frames = t[1].parse::<usize>().expect("trees") * TREE_FRAMES,
            "RUN" => {
                for kv in &t[1..] {
                    if let Some(n) = kv.strip_prefix("scenario=") {
                        s.name = n.into();
                    }
                }
            }
            "CFG" => {
                for kv in &t[1..] {
                    if let Some(n) = kv.strip_prefix("frames=") {
                        s.frames = n.parse().expect("frames");
                    }
                    if let Some(n) = kv.strip_prefix("init=") {
                        s.alloc_all = n == "alloc";
                    }
                    if let Some(n) = kv.strip_prefix("default=") {
                        s.cfg.default = n.parse().expect("default");
                    }
                    if let Some(n) = kv.strip_prefix("policy=") {
                        s.cfg.pol = Pol::parse(n);
                    }
                    if let Some(n) = kv.strip_prefix("classes=") {
                        s.cfg.classes = n
                            .split(',')
                            .filter(|e| !e.is_empty())
                            .map(|e| {
                                let (a, b) = e.split_once(':').expect("classes=c:n,..");
                                (a.parse().expect("class"), b.parse().expect("slots"))
                            })
                            .collect();
                    }
                }
            }
            "CLASSING" => {
                // CLASSING <policy> <default> <c:n,c:n,..>
                s.cfg.pol = Pol::parse(t[1]);
                s.cfg.default = t[2].parse().expect("default");
                s.cfg.classes = t[3]
                    .split(',')
                    .map(|e| {
                        let (a, b) = e.split_once(':').expect("c:n");
                        (a.parse().expect("class"), b.parse().expect("slots"))
                    })
                    .collect();
            }
            "PRE" => s.pre.push(parse_call(&t[1..(1 + call_len(t[1])).min(t.len())])),
            "CALL" => {
                let tid: usize = t[1].parse().expect("tid");
                while s.threads.len() <= tid {
                    s.threads.push(vec![]);
                }
                s.threads[tid].push(parse_call(&t[2..]));
            }
            _ => {}
        }
    }
    assert!(!s.threads.is_empty() && s.threads.len() <= MAXT, "scenario file: 1..4 threads");
    s.upper = s.threads.iter().flatten().chain(s.pre.iter()).any(|c| c.is_upper());
    s
}

/// the built-in scenarios of the upper API
fn builtin_upper() -> Vec<Scenario> {
    use CallSpec::*;
    let tf = TREE_FRAMES;
    let ho = HUGE_ORDER;
    let to = TREE_ORDER;
    let s1 = || UCfg { pol: Pol::Simple, default: 1, classes: vec![(0, 1), (1, 1)] };
    let s2 = || UCfg { pol: Pol::Simple, default: 1, classes: vec![(0, 2), (1, 2)] };
    let mv = || UCfg { pol: Pol::Movable, default: 2, classes: vec![(0, 1), (1, 1), (2, 1)] };
    let ze = || UCfg { pol: Pol::Zeroed, default: 1, classes: vec![(0, 1), (1, 1), (2, 1)] };
    let cu = || UCfg { pol: Pol::Custom, default: 1, classes: vec![(0, 1), (1, 1), (2, 1)] };
    let zs = || UCfg { pol: Pol::Simple, default: 1, classes: vec![(0, 1), (1, 0)] };
    let g = |order: usize, class: u8, local: Option<usize>| UGet { frame: None, order, class, local };
    let ga = |frame: usize, order: usize, class: u8, local: Option<usize>| UGet { frame: Some(frame), order, class, local };
    let pp = |idx: usize, off: usize, order: usize, class: u8, local: Option<usize>| UPutPre { idx, off, order, class, local };
    let pl = |order: usize, class: u8, local: Option<usize>| UPutLast { order, class, local };
    let offline = |i: usize| UChange { id: Some(i), mclass: None, mfree: tf, cclass: None, op: 2 };
    let online = |i: usize| UChange { id: Some(i), mclass: None, mfree: 0, cclass: None, op: 1 };
    let mut v: Vec<Scenario> = Vec::new();
    let mut add = |name: &str, cfg: UCfg, alloc_all: bool, trees: usize, pre: Vec<CallSpec>, threads: Vec<Vec<CallSpec>>| {
        v.push(Scenario { name: name.into(), alloc_all, frames: trees * tf, pre, threads, cfg, upper: true, group: "" });
    };
    // --- gets racing on one slot / different slots / without a slot
    add("u-get0-get0-slot", s1(), false, 2, vec![], vec![vec![g(0, 0, Some(0))], vec![g(0, 0, Some(0))]]);
    add("u-get0-get0-warm", s1(), false, 2, vec![g(0, 0, Some(0))], vec![vec![g(0, 0, Some(0))], vec![g(0, 0, Some(0))]]);
    add("u-get0-get0-2slots", s2(), false, 3, vec![], vec![vec![g(0, 0, Some(0))], vec![g(0, 0, Some(1))]]);
    add("u-get0-get0-noslot", s1(), false, 2, vec![], vec![vec![g(0, 0, None)], vec![g(0, 0, None)]]);
    // both allocate in the same huge frame of the same tree: the multi-row search of the lower allocator under the upper API
    add("u-get7-get0-noslot", s1(), false, 2, vec![], vec![vec![g(7, 0, None)], vec![g(0, 0, None)]]);
    add(
        "u-get7-getat6row1",
        s1(),
        false,
        2,
        vec![],
        vec![vec![g(7, 0, None), g(6, 0, None), g(6, 0, None)], vec![ga(64, 6, 0, None)]],
    );
    add(
        "u-get7-get6-then6",
        s1(),
        false,
        2,
        vec![],
        vec![vec![g(7, 0, None), g(6, 0, None), g(6, 0, None)], vec![g(6, 0, None)]],
    );
    add("u-get0-get9-classes", s1(), false, 2, vec![], vec![vec![g(0, 0, Some(0))], vec![g(ho, 1, Some(0))]]);
    add("u-get7-get0-warm", s1(), false, 2, vec![g(0, 0, Some(0))], vec![vec![g(7, 0, Some(0))], vec![g(0, 0, Some(0))]]);
    // the slot runs dry: sync with the global counter, then reserve another tree
    add("u-getT-get0-warm", s1(), false, 3, vec![g(0, 0, Some(0))], vec![vec![g(to, 0, Some(0))], vec![g(0, 0, Some(0))]]);
    // --- get vs put of the same tree, with and without slot
    add("u-put-get-slot", s1(), false, 2, vec![g(0, 0, Some(0))], vec![vec![pp(0, 0, 0, 0, Some(0))], vec![g(0, 0, Some(0))]]);
    add("u-put-get-noslot", s1(), false, 2, vec![g(0, 0, Some(0))], vec![vec![pp(0, 0, 0, 0, None)], vec![g(0, 0, Some(0))]]);
    // the put goes to the global counter, the tree-order get needs it (sync)
    add("u-put-getT-sync", s1(), false, 2, vec![g(0, 0, Some(0))], vec![vec![pp(0, 0, 0, 0, None)], vec![g(to, 0, Some(0))]]);
    add("u-getput-getput", s1(), false, 2, vec![], vec![vec![g(0, 0, Some(0)), pl(0, 0, Some(0))], vec![g(0, 0, Some(0)), pl(0, 0, Some(0))]]);
    add("u-put-put-global", s1(), false, 2, vec![g(0, 0, None), g(0, 0, None)], vec![vec![pp(0, 0, 0, 0, None)], vec![pp(1, 0, 0, 0, None)]]);
    // the last allocated frames of a tree are freed: the tree becomes entirely free (class reset)
    add("u-putT-get0", s1(), false, 2, vec![g(to, 0, None)], vec![vec![pp(0, 0, to, 0, None)], vec![g(0, 0, Some(0))]]);
    // --- the window between Trees::sync and Locals::put in get_local: the slot's counter is too small, the global entry
    // of the still reserved tree holds frames (freed without a slot); another thread clears / replaces / demotes the slot
    // after the sync took the global frames, so the write-back fails and has to be undone (trees.put)
    add("u-sync-drain", s1(), false, 2, vec![g(to, 0, Some(0)), pp(0, 0, ho, 0, None)], vec![vec![g(0, 0, Some(0))], vec![UDrain]]);
    add(
        "u-sync-sharedslot",
        s1(),
        false,
        2,
        vec![g(to, 0, Some(0)), pp(0, 0, ho, 0, None)],
        vec![vec![g(0, 0, Some(0))], vec![g(0, 0, Some(0))]],
    );
    add(
        "u-sync-put-drain",
        s1(),
        false,
        2,
        vec![g(to, 0, Some(0))],
        vec![vec![g(0, 0, Some(0))], vec![pp(0, 0, 0, 0, None), UDrain]],
    );
    // class 1 holds the reservation (counter TF/2 - 1, one frame in the global entry), the other tree is taken:
    // the class-0 get demotes the reservation while the class-1 get of order TREE_ORDER - 1 syncs
    add(
        "u-sync-demote",
        s1(),
        false,
        2,
        vec![g(to, 0, None), g(0, 1, Some(0)), g(to - 1, 1, Some(0)), pp(1, 0, 0, 1, None)],
        vec![vec![g(to - 1, 1, Some(0))], vec![g(0, 0, Some(0))]],
    );
    add(
        "u-mix3-sync-drain-get",
        s1(),
        false,
        3,
        vec![g(to, 0, Some(0)), pp(0, 0, ho, 0, None)],
        vec![vec![g(0, 0, Some(0))], vec![UDrain], vec![g(0, 0, Some(0))]],
    );
    // --- drains
    add("u-get-drain", s1(), false, 2, vec![g(0, 0, Some(0))], vec![vec![g(0, 0, Some(0))], vec![UDrain]]);
    add("u-drain-drain", s1(), false, 2, vec![g(0, 0, Some(0)), g(0, 1, Some(0))], vec![vec![UDrain], vec![UDrain]]);
    add("u-put-drain", s1(), false, 2, vec![g(0, 0, Some(0))], vec![vec![pp(0, 0, 0, 0, Some(0))], vec![UDrain]]);
    // --- steal: class 1 request while class 0 holds the reservation (both trees taken)
    add(
        "u-steal-local",
        s1(),
        false,
        2,
        vec![g(0, 0, Some(0)), g(to, 1, Some(0))],
        vec![vec![g(0, 1, Some(0))], vec![g(0, 0, Some(0))]],
    );
    add("u-steal-global", s1(), false, 2, vec![g(0, 0, None)], vec![vec![g(0, 1, None)], vec![g(0, 0, None)]]);
    // --- demote: class 0 request takes over the reservation of class 1
    add(
        "u-demote-local",
        s1(),
        false,
        2,
        vec![g(0, 1, Some(0)), g(to, 0, Some(0))],
        vec![vec![g(0, 0, Some(0))], vec![g(0, 1, Some(0))]],
    );
    add(
        "u-demote-noslot",
        s1(),
        false,
        2,
        vec![g(0, 1, Some(0)), g(to, 0, None)],
        vec![vec![g(0, 0, None)], vec![g(0, 1, Some(0))]],
    );
    // --- targeted gets
    add("u-getat-getat-slot", s1(), false, 2, vec![], vec![vec![ga(70, 0, 0, Some(0))], vec![ga(70, 0, 0, Some(0))]]);
    add("u-getat-getat-noslot", s1(), false, 2, vec![], vec![vec![ga(70, 0, 0, None)], vec![ga(71, 0, 0, None)]]);
    add("u-getat-get-warm", s1(), false, 2, vec![g(0, 0, Some(0))], vec![vec![ga(tf + 3, 0, 0, Some(0))], vec![g(0, 0, Some(0))]]);
    add("u-getat9-get0", s1(), false, 2, vec![], vec![vec![ga(0, ho, 1, None)], vec![g(0, 0, Some(0))]]);
    // a targeted get of a held block fails; untargeted gets of the same tree and row must never be handed that block
    add("u-getat-held-vs-get", s1(), false, 2, vec![ga(0, 0, 0, None)], vec![vec![ga(0, 0, 0, None)], vec![g(0, 0, None), g(0, 0, None)]]);
    add("u-getat-held1-vs-get1", s1(), false, 2, vec![ga(0, 1, 0, None)], vec![vec![ga(0, 1, 0, Some(0))], vec![g(1, 0, None), g(1, 0, None)]]);
    // everything is allocated except one frame (row 2 of tree 1) that slot 0 has reserved (slot row = first row of the tree,
    // counter 1): the get moves the slot's start row (set_start) while a free through the SAME slot increments its counter
    add(
        "u-setstart-vs-put",
        s1(),
        true,
        2,
        vec![UPut { frame: tf + 131, order: 0, class: 0, local: None }, g(0, 0, Some(0)), pp(1, 0, 0, 0, Some(0))],
        vec![vec![g(0, 0, Some(0))], vec![UPut { frame: tf + 200, order: 0, class: 0, local: Some(0) }]],
    );
    // ... or a get through the same slot syncs with the global counter (one frame freed there without a slot)
    add(
        "u-setstart-vs-get-sync",
        s1(),
        true,
        2,
        vec![
            UPut { frame: tf + 131, order: 0, class: 0, local: None },
            g(0, 0, Some(0)),
            pp(1, 0, 0, 0, Some(0)),
            UPut { frame: tf + 300, order: 0, class: 0, local: None },
        ],
        vec![vec![g(0, 0, Some(0))], vec![g(0, 0, Some(0))]],
    );
    // a targeted get without slot into a tree that is reserved (its global counter holds the frame freed without slot)
    add(
        "u-getat-reserved",
        s1(),
        false,
        2,
        vec![g(0, 0, Some(0)), pp(0, 0, 0, 0, None)],
        vec![vec![UGetPre { idx: 0, off: 0, order: 0, class: 0, local: None }], vec![g(0, 0, Some(0))]],
    );
    // --- change_tree
    add("u-get-offline", s1(), false, 2, vec![], vec![vec![g(0, 0, None)], vec![offline(1)]]);
    add("u-getslot-offline", s1(), false, 2, vec![], vec![vec![g(0, 0, Some(0))], vec![offline(1)]]);
    add("u-online-getT", s1(), false, 2, vec![offline(1), g(to, 1, None)], vec![vec![online(1)], vec![g(to, 0, None)]]);
    // the offline change loads the entirely free tree 1 (the one slot 0 reserves first when there are two trees), the get
    // reserves it before the change's compare-exchange: the change has to be re-evaluated (and then fails); the later gets
    // through the slot must not come from an offline tree
    add(
        "u-offline-vs-reserve",
        s1(),
        false,
        2,
        vec![],
        vec![vec![g(0, 0, Some(0)), g(0, 0, Some(0)), g(0, 0, Some(0))], vec![offline(1)]],
    );
    add(
        "u-offline-vs-reserve-noslot",
        s1(),
        false,
        2,
        vec![],
        vec![vec![g(0, 0, None), g(0, 0, None)], vec![offline(0), offline(1)]],
    );
    // the prologue fills row 0 of the reserved tree 1 through slot 0, so the next get moves the slot's start row
    // (set_start) while the other thread drains the slot and takes the tree offline (matcher free = 0)
    add(
        "u-setstart-vs-drain-offline",
        s1(),
        false,
        2,
        vec![g(6, 0, Some(0))],
        vec![
            vec![g(0, 0, Some(0)), g(0, 0, Some(0))],
            vec![UDrain, UChange { id: Some(1), mclass: None, mfree: 0, cclass: None, op: 2 }],
        ],
    );
    add(
        "u-setstart-vs-get",
        s1(),
        false,
        2,
        vec![g(6, 0, Some(0))],
        vec![vec![g(0, 0, Some(0)), g(0, 0, Some(0))], vec![g(0, 0, Some(0)), g(6, 0, Some(0))]],
    );
    // three trees; the prologue fills all rows but the last one of the tree X reserved by slot 0 (start row = the full row
    // before the last, 64 frames left): the order-0 get lands in the last row and moves the start row (set_start) while the
    // order-7 get through the SAME slot cannot be satisfied (nothing to sync), reserves another tree Y, swaps the slot and
    // unreserves X: set_start must then leave Y's reservation alone
    let fillx = || -> Vec<CallSpec> { (6..to).rev().map(|o| g(o, 0, Some(0))).collect() };
    add(
        "u-setstart-vs-reserve",
        s1(),
        false,
        3,
        fillx(),
        vec![vec![g(0, 0, Some(0))], vec![g(7, 0, Some(0))]],
    );
    // ... followed by frees into X and gets through the slot
    add(
        "u-setstart-vs-reserve-put",
        s1(),
        false,
        3,
        fillx(),
        vec![vec![g(0, 0, Some(0)), pp(to - 9, 0, 8, 0, Some(0)), pp(to - 8, 0, 7, 0, Some(0))], vec![g(7, 0, Some(0)), g(0, 0, Some(0))]],
    );
    // a class change / an offline with matcher free = 0 still matches after a concurrent get or put changed the counter: the
    // change's compare-exchange fails once and has to be retried with the refreshed value
    add(
        "u-reclass-vs-get",
        s1(),
        false,
        2,
        vec![],
        vec![vec![UChange { id: Some(0), mclass: None, mfree: 0, cclass: Some(0), op: 0 }], vec![ga(3, 0, 0, None)]],
    );
    add(
        "u-reclass-vs-put",
        s1(),
        false,
        2,
        vec![ga(3, 0, 0, None)],
        vec![vec![UChange { id: Some(0), mclass: None, mfree: 0, cclass: Some(1), op: 0 }], vec![pp(0, 0, 0, 0, None)]],
    );
    add(
        "u-offline0-vs-put",
        s1(),
        false,
        2,
        vec![ga(3, 0, 0, None), ga(4, 0, 0, None)],
        vec![vec![UChange { id: Some(0), mclass: None, mfree: 0, cclass: None, op: 2 }], vec![pp(0, 0, 0, 0, None)]],
    );
    add(
        "u-reclass-search-vs-get",
        s1(),
        false,
        2,
        vec![],
        vec![vec![UChange { id: None, mclass: Some(1), mfree: 0, cclass: Some(0), op: 0 }], vec![ga(3, 0, 1, None)]],
    );
    add("u-offline-offline", s1(), false, 2, vec![], vec![vec![offline(0)], vec![offline(0)]]);
    add(
        "u-reclass-get",
        s1(),
        false,
        2,
        vec![],
        vec![vec![UChange { id: None, mclass: Some(1), mfree: tf, cclass: Some(0), op: 0 }], vec![g(0, 1, None)]],
    );
    // --- exhaustion: the last frames
    add(
        "u-exhaust",
        s1(),
        false,
        2,
        vec![g(to, 1, None), g(to - 1, 1, None), g(to - 2, 1, None), ga(tf + tf / 2 + tf / 4, to - 2, 1, None), g(0, 0, Some(0))],
        vec![vec![g(to - 2, 0, Some(0))], vec![g(to - 3, 0, Some(0))]],
    );
    add(
        "u-exhaust-last",
        s1(),
        true,
        2,
        vec![UPut { frame: 5, order: 0, class: 0, local: None }],
        vec![vec![g(0, 0, Some(0))], vec![g(0, 0, Some(0))]],
    );
    // --- puts of parts of one huge block through the upper API  [D13]
    add("u-split-put0-put0", s1(), false, 2, vec![g(ho, 1, Some(0))], vec![vec![pp(0, 5, 0, 1, Some(0))], vec![pp(0, 6, 0, 1, Some(0))]]);
    add("u-split-put0-get0", s1(), false, 2, vec![g(ho, 1, Some(0))], vec![vec![pp(0, 5, 0, 1, None)], vec![g(0, 1, Some(0))]]);
    // --- fragmentation: every huge frame has one frame allocated, so the tree counters admit an order-9 request that
    // the lower allocator cannot serve: the undo paths of reserve_or_steal / steal_global / get_local
    let frag = |trees: usize| -> Vec<CallSpec> {
        (0..trees * TREE_HUGE).map(|h| ga(h * HUGE_FRAMES, 0, 0, None)).collect()
    };
    add("u-frag-get9-get0", s1(), false, 2, frag(2), vec![vec![g(ho, 1, Some(0))], vec![g(0, 0, Some(0))]]);
    add("u-frag-get9-noslot", s1(), false, 2, frag(2), vec![vec![g(ho, 1, None)], vec![g(0, 0, None)]]);
    {
        let mut pre = frag(2);
        pre.push(g(0, 0, Some(0)));
        add("u-frag-get9-local", s1(), false, 2, pre, vec![vec![g(ho, 0, Some(0))], vec![g(0, 0, Some(0))]]);
    }
    // the split of a huge block of tree 1 while huge frame 0 of tree 0 holds small blocks (crash snapshots: recovery must
    // repair the bitfield of the marker entry, not the one with the same child index in tree 0)
    add(
        "u-split-put0-tree1",
        s1(),
        false,
        2,
        vec![ga(0, 0, 0, None), ga(1, 0, 0, None), ga(64, 3, 0, None), ga(tf, ho, 1, None)],
        vec![vec![pp(3, 5, 0, 1, None)], vec![g(0, 0, Some(0))]],
    );
    if TREE_HUGE >= 2 {
        add(
            "u-split-put0-tree1-child1",
            s1(),
            false,
            2,
            vec![ga(HUGE_FRAMES + 3, 0, 0, None), ga(tf + HUGE_FRAMES, ho, 1, None)],
            vec![vec![pp(1, 5, 0, 1, None)], vec![pp(1, 64, 0, 1, None)]],
        );
    }
    // custom policy (class pairs 0/2 unusable): a slot-less class-2 get steals from the class-1 tree (it keeps class 1), a
    // slot-less class-0 get demotes the same tree to class 0: the class the class-2 get reports must be the one it installed
    add("u-custom-steal-demote", cu(), false, 1, vec![], vec![vec![g(0, 2, None)], vec![g(0, 0, None)]]);
    add("u-custom-steal-demote-2trees", cu(), false, 2, vec![], vec![vec![g(0, 2, None), g(0, 2, None)], vec![g(0, 0, None)]]);
    // the class-2 get WITH its slot goes through search_and_reserve -> Trees::reserve_or_steal on an entirely free
    // default-class tree (custom policy: class 2 on class 1 is rated Steal, so it steals and the tree keeps class 1); the
    // slot-less class-0 get allocates in the same tree and demotes it to class 0 between the search's load and the
    // compare-exchange: the re-evaluation sees a class-0 tree (Invalid for class 2) and must give up on it.  With two trees
    // the two gets meet in the second class-2 get (the first one takes tree 0, the class-0 get prefers tree 1)
    add("u-custom-reserve-demote", cu(), false, 2, vec![g(0, 2, Some(0))], vec![vec![g(0, 2, Some(0))], vec![g(0, 0, None)]]);
    add("u-custom-reserve-demote-2trees", cu(), false, 2, vec![], vec![vec![g(0, 2, Some(0)), g(0, 2, Some(0))], vec![g(0, 0, None)]]);
    // ... or a change_tree re-classes the tree to the class that is unusable for the get: the class-0 get reserves tree 1
    // (class 0 on class 1 is rated Demote), the class-2 get steals from tree 0
    add(
        "u-custom-reserve0-reclass2",
        cu(),
        false,
        2,
        vec![],
        vec![vec![g(0, 0, Some(0))], vec![UChange { id: Some(1), mclass: None, mfree: 0, cclass: Some(2), op: 0 }]],
    );
    add(
        "u-custom-reserve2-reclass0",
        cu(),
        false,
        2,
        vec![],
        vec![vec![g(0, 2, Some(0))], vec![UChange { id: Some(0), mclass: None, mfree: 0, cclass: Some(0), op: 0 }]],
    );
    // --- other classings
    add("u-mov-get-get", mv(), false, 3, vec![], vec![vec![g(0, 0, Some(0))], vec![g(0, 1, Some(0))]]);
    add("u-mov-get9-get0", mv(), false, 3, vec![g(0, 1, Some(0))], vec![vec![g(ho, 2, Some(0))], vec![g(0, 0, Some(0))]]);
    add(
        "u-zeroed-steal",
        ze(),
        false,
        2,
        vec![g(0, 0, Some(0)), g(to, 1, Some(0))],
        vec![vec![g(0, 2, Some(0))], vec![g(0, 0, Some(0))]],
    );
    add("u-custom-get-get", cu(), false, 2, vec![g(0, 2, Some(0))], vec![vec![g(0, 0, Some(0))], vec![g(0, 2, Some(0))]]);
    add("u-zeroslot-get-get", zs(), false, 2, vec![], vec![vec![g(0, 1, Some(0))], vec![g(0, 0, Some(0))]]);
    // --- a partial last tree (half a huge frame + 7 frames behind two whole trees): allocations in the partial huge frame
    v.push(Scenario {
        name: "u-partial-getat-get".into(),
        alloc_all: false,
        frames: 2 * tf + HUGE_FRAMES / 2 + 7,
        pre: vec![],
        threads: vec![vec![ga(2 * tf + 3, 0, 0, None), ga(2 * tf + 64, 6, 0, None)], vec![g(0, 0, Some(0))]],
        cfg: s1(),
        upper: true,
        group: "",
    });
    v.push(Scenario {
        name: "u-partial-exhaust".into(),
        alloc_all: true,
        frames: 2 * tf + HUGE_FRAMES / 2 + 7,
        pre: vec![UPut { frame: 2 * tf + HUGE_FRAMES / 2 + 6, order: 0, class: 0, local: None }, UPut { frame: 2 * tf + 1, order: 0, class: 0, local: None }],
        threads: vec![vec![g(0, 0, Some(0))], vec![g(0, 0, None)]],
        cfg: s1(),
        upper: true,
        group: "",
    });
    // --- three threads
    let mut add = |name: &str, cfg: UCfg, alloc_all: bool, trees: usize, pre: Vec<CallSpec>, threads: Vec<Vec<CallSpec>>| {
        v.push(Scenario { name: name.into(), alloc_all, frames: trees * tf, pre, threads, cfg, upper: true, group: "" });
    };
    add("u-mix3-get-get-drain", s1(), false, 2, vec![g(0, 0, Some(0))], vec![vec![g(0, 0, Some(0))], vec![g(0, 1, Some(0))], vec![UDrain]]);
    add(
        "u-mix3-get-put-get9",
        s1(),
        false,
        2,
        vec![g(0, 0, Some(0))],
        vec![vec![g(0, 0, Some(0))], vec![pp(0, 0, 0, 0, None)], vec![g(ho, 1, None)]],
    );
    add(
        "u-mix3-2slots",
        s2(),
        false,
        3,
        vec![],
        vec![vec![g(0, 0, Some(0)), pl(0, 0, Some(0))], vec![g(0, 0, Some(1))], vec![g(3, 1, Some(0))]],
    );
    // ---------------------------------------------------------------------------------------------------------------
    // group `online-race` (NOT part of `--scenario all`): change_tree(Online) on a tree whose counter is 0 copies the
    // lower allocator's free count of the tree into the counter while another call is between its lower operation and
    // its counter update
    let mut addg = |name: &str, alloc_all: bool, pre: Vec<CallSpec>, threads: Vec<Vec<CallSpec>>| {
        v.push(Scenario { name: name.into(), alloc_all, frames: 2 * tf, pre, threads, cfg: s1(), upper: true, group: "online-race" });
    };
    // everything is allocated (counters 0): a free of one frame of tree 0 vs online(0)
    addg("u-online-vs-put", true, vec![], vec![vec![UPut { frame: 0, order: 0, class: 0, local: None }], vec![online(0)]]);
    // tree 0 is taken offline while one frame of it is allocated; that frame is freed vs online(0)
    addg(
        "u-online-vs-put-offline",
        false,
        vec![ga(0, 0, 0, None), UChange { id: Some(0), mclass: None, mfree: 0, cclass: None, op: 2 }],
        vec![vec![pp(0, 0, 0, 0, None)], vec![online(0)]],
    );
    // a tree-order get without slot takes the counter of tree 0 to 0; online(0) restores it before the lower get
    addg("u-online-vs-get-noslot", false, vec![], vec![vec![ga(0, to, 0, None)], vec![online(0)]]);
    addg("u-online-vs-get0-noslot", false, vec![ga(0, to - 1, 0, None), ga(tf / 2, to - 2, 0, None), ga(tf / 2 + tf / 4, to - 2, 0, None)],
         vec![vec![UPutPre { idx: 2, off: 0, order: to - 2, class: 0, local: None }, g(to - 2, 0, None)], vec![online(0)]]);
    v
}

// ------------------------------------------------------------------------------------------------
// one execution
// ------------------------------------------------------------------------------------------------
#[derive(Clone, Copy, PartialEq, Eq, Debug)]
enum St {
    Idle,
    /// mid-call; the flag says that the only step so far was the call start
    Running(bool),
    Panicked,
}

struct Env {
    bufs: Bufs,
    snap: Bufs,
    frames: usize,
    snapshots: bool,
}
unsafe impl Sync for Env {}

struct Exec<'a> {
    env: &'a Env,
    scn: &'a Scenario,
    alloc: Box<LLFree<'static>>,
    st: Vec<St>,
    next: Vec<usize>,
    last: Vec<Option<usize>>,
    cur_call: Vec<Option<CallSpec>>,
    /// steps of the call in progress
    call_steps: Vec<usize>,
    held: Vec<(usize, usize)>,
    sched: Vec<u8>,
    cur: Option<usize>,
    nsteps: usize,
    failed_cas: bool,
    hfail: usize,
    panics: usize,
    text: String,
    /// result of the last completed call per thread
    last_res: Vec<Option<Res>>,
    /// frames returned by the prologue calls (None: not a successful get)
    pre_res: Vec<Option<usize>>,
    /// blocks returned by upper gets with the class they reported
    got: Vec<(usize, usize, u8)>,
    /// the step limit was hit: threads are still inside calls
    aborted: bool,
    /// blocks freed by completed puts of the scheduled part (probed after the run)
    freed: Vec<(usize, usize)>,
}

fn overlap(a: (usize, usize), b: (usize, usize)) -> bool {
    a.0 < b.0 + (1 << b.1) && b.0 < a.0 + (1 << a.1)
}

impl<'a> Exec<'a> {
    fn new(env: &'a Env, scn: &'a Scenario, run: u64, mode: &str) -> Self {
        let n = scn.threads.len();
        env.bufs.zero();
        let init = if scn.alloc_all { Init::AllocAll } else { Init::FreeAll };
        assert!(scn.cfg.nslots() <= MAX_SLOTS);
        let classing = scn.cfg.classing();
        let alloc = Box::new(LLFree::new(scn.frames, init, &classing, env.bufs.meta()).expect("LLFree::new"));
        ALLOC.store(&*alloc as *const LLFree as usize, Ordering::Release);
        let mut ex = Exec {
            env,
            scn,
            alloc,
            st: vec![St::Idle; n],
            next: vec![0; n],
            last: vec![None; n],
            cur_call: vec![None; n],
            call_steps: vec![0; n],
            held: Vec::new(),
            sched: Vec::new(),
            cur: None,
            nsteps: 0,
            failed_cas: false,
            hfail: 0,
            panics: 0,
            text: String::with_capacity(4096),
            last_res: vec![None; n],
            pre_res: Vec::new(),
            got: Vec::new(),
            aborted: false,
            freed: Vec::new(),
        };
        let _ = writeln!(ex.text, "RUN {run} scenario={} mode={mode}", scn.name);
        let _ = writeln!(
            ex.text,
            "CFG huge_order={HUGE_ORDER} tree_huge={TREE_HUGE} frames={} init={} threads={n}{}",
            scn.frames,
            if scn.alloc_all { "alloc" } else { "free" },
            if scn.upper { format!(" api=upper {}", scn.cfg.text()) } else { String::new() }
        );
        if scn.alloc_all {
            for h in 0..scn.frames / HUGE_FRAMES {
                ex.held.push((h * HUGE_FRAMES, HUGE_ORDER));
            }
            for f in (scn.frames / HUGE_FRAMES) * HUGE_FRAMES..scn.frames {
                ex.held.push((f, 0));
            }
        }
        // sequential prologue on the main thread (hooks see no worker id)
        for &c in &scn.pre {
            let c = match c {
                CallSpec::UPutPre { idx, off, order, class, local } => match ex.pre_res.get(idx).copied().flatten() {
                    Some(f) => CallSpec::UPut { frame: f + off, order, class, local },
                    None => {
                        ex.pre_res.push(None);
                        continue;
                    }
                },
                c => c,
            };
            if let CallSpec::Put(f, o) | CallSpec::UPut { frame: f, order: o, .. } = c {
                ex.take_held(f, o);
            }
            let r = exec_caught(&ex.alloc, c);
            let _ = writeln!(ex.text, "PRE {} {}", call_text(c), r.text());
            ex.pre_res.push(match r {
                Res::Frame(f) | Res::Frame2(f, _) => Some(f),
                _ => None,
            });
            ex.account(c, &r);
        }
        ex.snapshot();
        ex
    }

    fn hfail(&mut self, t: String) {
        self.hfail += 1;
        let _ = writeln!(self.text, "HFAIL {t}");
    }

    /// the client gives up block (f,o): remove it from the held list, splitting a larger held block
    fn take_held(&mut self, f: usize, o: usize) {
        if let Some(i) = self.held.iter().position(|&(bf, bo)| bo >= o && bf <= f && f + (1 << o) <= bf + (1 << bo)) {
            let (_, bo) = self.held.remove(i);
            let mut k = o;
            while k < bo {
                let sib = ((f >> k) ^ 1) << k;
                self.held.push((sib, k));
                k += 1;
            }
        } else {
            // a block made of several held blocks (the machine's client does not do this)
            let inside: Vec<usize> =
                (0..self.held.len()).filter(|&i| self.held[i].0 >= f && self.held[i].0 + (1 << self.held[i].1) <= f + (1 << o)).collect();
            let total: usize = inside.iter().map(|&i| 1usize << self.held[i].1).sum();
            if total == 1 << o {
                for &i in inside.iter().rev() {
                    self.held.remove(i);
                }
            } else {
                self.hfail(format!("scenario frees a block that is not held: put {f} {o}"));
            }
        }
    }

    /// harness-side oracles on a completed call
    fn account(&mut self, c: CallSpec, r: &Res) {
        match (c, r) {
            (CallSpec::Get(_, o) | CallSpec::GetAt(_, o), Res::Frame(f)) | (CallSpec::UGet { order: o, .. }, Res::Frame2(f, _)) => {
                let b = (*f, o);
                if let Res::Frame2(_, cl) = r {
                    self.got.push((*f, o, *cl));
                }
                if f % (1 << o) != 0 {
                    self.hfail(format!("misaligned block: {} -> frame {f} order {o}", call_text(c)));
                }
                if f + (1 << o) > self.scn.frames {
                    self.hfail(format!("block out of range: {} -> frame {f} order {o}", call_text(c)));
                }
                if let Some(&(hf, ho)) = self.held.iter().find(|&&h| overlap(h, b)) {
                    self.hfail(format!(
                        "overlap: {} -> frame {f} order {o} overlaps held block frame {hf} order {ho}",
                        call_text(c)
                    ));
                }
                self.held.push(b);
            }
            (CallSpec::UPut { frame: f, order: o, .. }, Res::Unit) => {
                self.freed.push((f, o));
            }
            (CallSpec::Put(f, o) | CallSpec::UPut { frame: f, order: o, .. }, Res::Err(e)) => {
                self.hfail(format!("free of held block returned err {e}: put {f} {o}"));
            }
            (_, Res::Panic(m)) => {
                self.panics += 1;
                if !m.contains("Exceeding retries") {
                    self.hfail(format!("panic {m} in {}", call_text(c)));
                }
            }
            _ => {}
        }
    }

    /// crash here: recover a copy of the lower buffer with fresh volatile state
    fn snapshot(&mut self) {
        if !self.env.snapshots {
            return;
        }
        let env = self.env;
        env.snap.zero();
        unsafe { std::ptr::copy_nonoverlapping(env.bufs.lower, env.snap.lower, env.bufs.lower_len) };
        let frames = self.scn.frames;
        let q = QUIET.with(|t| t.replace(true));
        let classing = self.scn.cfg.classing();
        let upper = self.scn.upper;
        let r = catch_unwind(AssertUnwindSafe(|| {
            let a = LLFree::new(frames, Init::Recover, &classing, env.snap.meta()).expect("recover");
            let st = a.stats();
            // whole-allocator runs: the recovered instance's fast count and its own validation
            let extra = if upper {
                let ts = a.tree_stats().free_frames;
                let v = match catch_unwind(AssertUnwindSafe(|| a.validate())) {
                    Ok(()) => "ok".to_string(),
                    Err(_) => format!("panic {}", PANIC_MSG.with(|m| m.borrow().clone())),
                };
                format!(" tstats={ts} validate={v}")
            } else {
                String::new()
            };
            (st, extra)
        }));
        QUIET.with(|t| t.set(q));
        match r {
            Ok((s, extra)) => {
                let _ = writeln!(
                    self.text,
                    "SNAP {} {} stats={},{},{}{}",
                    self.nsteps,
                    dump_state(env.snap.lower, frames),
                    s.free_frames,
                    s.free_huge,
                    s.free_trees,
                    extra
                );
            }
            Err(_) => {
                let m = PANIC_MSG.with(|m| m.borrow().clone());
                let _ = writeln!(self.text, "SNAP {} panic {m}", self.nsteps);
            }
        }
    }

    fn locate(&self, addr: usize) -> Loc {
        let b = &self.env.bufs;
        let lo = b.lower as usize;
        if addr >= lo && addr < lo + b.lower_len {
            let off = addr - lo;
            let bsz = nbf(self.env.frames) * BF_SIZE;
            if off < bsz {
                let w = off % BF_SIZE;
                if w < HUGE_FRAMES / 8 {
                    return Loc::Row { h: off / BF_SIZE, r: w / 8, bit: (w % 8) * 8 };
                }
            } else {
                let t = (off - bsz) / TAB_SIZE;
                let w = (off - bsz) % TAB_SIZE;
                if w < 2 * TREE_HUGE && w % 2 == 0 {
                    return Loc::Ent { h: t * TREE_HUGE + w / 2 };
                }
            }
            return Loc::Other("lowerpad", off);
        }
        let t = b.trees as usize;
        if addr >= t && addr < t + b.trees_len {
            let off = addr - t;
            if off % 4 == 0 && off / 4 < ntab(self.scn.frames) {
                return Loc::Tree { i: off / 4 };
            }
            return Loc::Other("trees", off);
        }
        let l = b.local as usize;
        if addr >= l && addr < l + b.local_len {
            let off = addr - l;
            if off % 64 == 0 {
                if let Some((class, idx)) = self.scn.cfg.slot_of(off / 64) {
                    return Loc::Slot { class, idx };
                }
            }
            return Loc::Other("local", off);
        }
        Loc::Other("other", addr)
    }

    /// the next call of thread t (unresolvable `putlast`s are dropped)
    fn next_call(&mut self, t: usize) -> Option<CallSpec> {
        loop {
            let c = *self.scn.threads[t].get(self.next[t])?;
            match c {
                CallSpec::PutLast(o) => match self.last[t] {
                    Some(f) => return Some(CallSpec::Put(f, o)),
                    None => self.next[t] += 1,
                },
                CallSpec::UPutLast { order, class, local } => match self.last[t] {
                    Some(f) => return Some(CallSpec::UPut { frame: f, order, class, local }),
                    None => self.next[t] += 1,
                },
                CallSpec::UPutPre { idx, off, order, class, local } => match self.pre_res.get(idx).copied().flatten() {
                    Some(f) => return Some(CallSpec::UPut { frame: f + off, order, class, local }),
                    None => self.next[t] += 1,
                },
                CallSpec::UGetPre { idx, off, order, class, local } => match self.pre_res.get(idx).copied().flatten() {
                    Some(f) => return Some(CallSpec::UGet { frame: Some(f + off), order, class, local }),
                    None => self.next[t] += 1,
                },
                c => return Some(c),
            }
        }
    }

    fn enabled(&mut self, t: usize) -> bool {
        match self.st[t] {
            St::Running(_) => true,
            St::Panicked => false,
            St::Idle => self.next_call(t).is_some(),
        }
    }
    fn midcall(&self, t: usize) -> bool {
        matches!(self.st[t], St::Running(_))
    }
    fn any_enabled(&mut self) -> bool {
        (0..self.st.len()).any(|t| self.enabled(t))
    }
    fn enabled_list(&mut self) -> Vec<usize> {
        (0..self.st.len()).filter(|&t| self.enabled(t)).collect()
    }

    /// thread t (enabled) makes the next step: an idle thread is given its next call
    fn prepare(&mut self, t: usize) {
        if self.st[t] == St::Idle {
            let c = self.next_call(t).expect("step of a finished thread");
            self.next[t] += 1;
            if matches!(self.scn.threads[t][self.next[t] - 1], CallSpec::PutLast(_) | CallSpec::UPutLast { .. }) {
                self.last[t] = None;
            }
            NEXT_CALL.lock().unwrap()[t] = Some(c);
            // the call counts as started from here on (its CALL line follows with the next events)
            self.st[t] = St::Running(true);
        }
        self.sched.push(t as u8);
        self.cur = Some(t);
    }

    /// record what the step that just ended did
    fn absorb(&mut self) {
        let evs: Vec<Ev> = std::mem::take(&mut *EVENTS.lock().unwrap());
        let mut wrote = false;
        for ev in evs {
            match ev {
                Ev::Call(tid, c) => {
                    let _ = writeln!(self.text, "CALL {tid} {}", call_text(c));
                    if let CallSpec::Put(f, o) | CallSpec::UPut { frame: f, order: o, .. } = c {
                        self.take_held(f, o);
                    }
                    self.st[tid] = St::Running(true);
                    self.cur_call[tid] = Some(c);
                    self.call_steps[tid] = 0;
                }
                Ev::Step { tid, kind, addr, width, pre, val, newv, ok } => {
                    self.nsteps += 1;
                    self.call_steps[tid] += 1;
                    self.st[tid] = St::Running(false);
                    let (kn, found, new, writes) = match kind {
                        Kind::Load => ("load", val, None, false),
                        Kind::Cas => ("cas", val, if ok { Some(newv) } else { None }, ok),
                        Kind::Store => ("store", pre, Some(newv), true),
                        Kind::Swap => ("swap", val, Some(newv), true),
                        Kind::Rmw => ("rmw", val, Some(newv), true),
                    };
                    if kind == Kind::Cas && !ok {
                        self.failed_cas = true;
                    }
                    let new = match new {
                        Some(v) => format!("{v:x}"),
                        None => "-".into(),
                    };
                    let okn = ok as u8;
                    match self.locate(addr) {
                        Loc::Row { h, r, bit } => {
                            let _ = writeln!(self.text, "S {tid} {kn} row {h} {r} {bit} {} {found:x} {new} {okn}", width * 8);
                            wrote |= writes;
                        }
                        Loc::Ent { h } => {
                            let _ = writeln!(self.text, "S {tid} {kn} ent {h} 0 0 {} {found:x} {new} {okn}", width * 8);
                            wrote |= writes;
                        }
                        Loc::Tree { i } => {
                            let _ = writeln!(self.text, "S {tid} {kn} tree {i} 0 0 {} {found:x} {new} {okn}", width * 8);
                        }
                        Loc::Slot { class, idx } => {
                            let _ = writeln!(self.text, "S {tid} {kn} slot {class} {idx} 0 {} {found:x} {new} {okn}", width * 8);
                        }
                        Loc::Other(b, off) => {
                            let _ = writeln!(self.text, "X {tid} {kn} {b} {off} {} {found:x} {new} {okn}", width * 8);
                        }
                    }
                }
                Ev::Ret(tid, r) => {
                    let _ = writeln!(self.text, "RET {tid} {}", r.text());
                    let c = self.cur_call[tid].take().expect("ret without call");
                    self.st[tid] = if matches!(r, Res::Panic(_)) { St::Panicked } else { St::Idle };
                    if let (CallSpec::Get(..) | CallSpec::GetAt(..), Res::Frame(f)) | (CallSpec::UGet { .. }, Res::Frame2(f, _)) = (c, &r) {
                        self.last[tid] = Some(*f);
                    }
                    self.account(c, &r);
                    self.last_res[tid] = Some(r);
                }
            }
        }
        if wrote {
            self.snapshot();
        }
    }

    /// ` trees=<hex u32,..> slots=<hex u64 in buffer order,..>` of an upper-API run
    fn dump_upper(&self) -> String {
        if !self.scn.upper {
            return String::new();
        }
        let mut s = String::from(" trees=");
        for i in 0..ntab(self.scn.frames) {
            if i > 0 {
                s.push(',');
            }
            let _ = write!(s, "{:x}", read_mem(self.env.bufs.trees as usize + 4 * i, 4));
        }
        s.push_str(" slots=");
        for gi in 0..self.scn.cfg.nslots() {
            if gi > 0 {
                s.push(',');
            }
            let _ = write!(s, "{:x}", read_mem(self.env.bufs.local as usize + 64 * gi, 8));
        }
        if self.scn.cfg.nslots() == 0 {
            s.push('-');
        }
        s
    }

    /// Quiescent checks after an upper-API run (all threads are done; main thread, no scheduling):
    /// POST stats / tree_stats / validate, then a drain and probe allocations (C04, C10).
    /// Skipped when a thread panicked (the allocator is then not quiescent in any useful sense).
    fn post(&mut self) {
        if self.panics > 0 {
            let _ = writeln!(self.text, "POST skipped panics={}", self.panics);
            return;
        }
        let alloc: &LLFree = &self.alloc;
        let st = alloc.stats();
        let ts = alloc.tree_stats();
        let _ = writeln!(self.text, "POST stats free_frames={} free_huge={} free_trees={}", st.free_frames, st.free_huge, st.free_trees);
        let _ = writeln!(self.text, "POST tree_stats free_frames={} free_trees={}", ts.free_frames, ts.free_trees);
        let q = QUIET.with(|t| t.replace(true));
        let v = catch_unwind(AssertUnwindSafe(|| alloc.validate()));
        QUIET.with(|t| t.set(q));
        match v {
            Ok(()) => {
                let _ = writeln!(self.text, "POST validate ok");
            }
            Err(_) => {
                let m = PANIC_MSG.with(|m| m.borrow().clone());
                let _ = writeln!(self.text, "POST validate panic {m}");
            }
        }
        // drain, then probes: a base get per configured class (with slot 0 / without), targeted gets of a
        // free frame, of a held frame and of an entirely free huge frame
        let mut calls: Vec<CallSpec> = vec![CallSpec::UDrain];
        let classes: Vec<(u8, usize)> = self.scn.cfg.classes.clone();
        for &(c, n) in &classes {
            calls.push(CallSpec::UGet { frame: None, order: 0, class: c, local: if n > 0 { Some(0) } else { None } });
        }
        let c0 = classes[0].0;
        calls.push(CallSpec::UGet { frame: None, order: 0, class: c0, local: None });
        for c in calls {
            self.post_call(c);
        }
        let frames = self.scn.frames;
        let is_held = |held: &Vec<(usize, usize)>, f: usize| held.iter().any(|&(b, o)| b <= f && f < b + (1 << o));
        // one free frame of every tree (a tree whose counters lost frames refuses it)
        for t in 0..frames.div_ceil(TREE_FRAMES) {
            let hi = ((t + 1) * TREE_FRAMES).min(frames);
            let free_frame = (t * TREE_FRAMES..hi).rev().find(|&f| !is_held(&self.held, f));
            if let Some(f) = free_frame {
                self.post_call(CallSpec::UGet { frame: Some(f), order: 0, class: c0, local: if t % 2 == 1 { Some(0) } else { None } });
            }
        }
        // the blocks freed during the run that are still free: their first frame must be allocatable again
        let freed: Vec<(usize, usize)> = self.freed.iter().copied().take(4).collect();
        for (f, o) in freed {
            if (f..f + (1 << o)).all(|x| !is_held(&self.held, x)) {
                self.post_call(CallSpec::UGet { frame: Some(f), order: 0, class: c0, local: None });
            }
        }
        let held_frame = (0..frames).find(|&f| is_held(&self.held, f));
        if let Some(f) = held_frame {
            self.post_call(CallSpec::UGet { frame: Some(f), order: 0, class: c0, local: None });
        }
        let free_huge = (0..frames / HUGE_FRAMES).rev().find(|&h| (h * HUGE_FRAMES..(h + 1) * HUGE_FRAMES).all(|f| !is_held(&self.held, f)));
        if let Some(h) = free_huge {
            let cl = classes.last().unwrap().0;
            self.post_call(CallSpec::UGet { frame: Some(h * HUGE_FRAMES), order: HUGE_ORDER, class: cl, local: None });
        }
        let st = self.alloc.stats();
        let _ = writeln!(self.text, "POST stats free_frames={} free_huge={} free_trees={}", st.free_frames, st.free_huge, st.free_trees);
        let _ = writeln!(self.text, "POSTEND {}{}", dump_state(self.env.bufs.lower, self.scn.frames), self.dump_upper());
        // free EVERY block that is still held (prologue, scheduled part, probes), without a slot, with the class the
        // block was allocated with: counters that are too high trip the asserts of Tree::put only now
        // (a drain first: the probe gets may have reserved a tree, its slot would absorb an excess)
        let mut blocks = self.held.clone();
        blocks.sort();
        let mut all_ok = self.post_call(CallSpec::UDrain);
        for (f, o) in blocks {
            let class = self.got.iter().rev().find(|&&(bf, bo, _)| bf <= f && f < bf + (1 << bo)).map(|x| x.2).unwrap_or(c0);
            let c = CallSpec::UPut { frame: f, order: o, class, local: None };
            if !all_ok {
                break;
            }
            self.take_held(f, o);
            all_ok = self.post_call(c);
        }
        if all_ok {
            let st = self.alloc.stats();
            let ts = self.alloc.tree_stats();
            let _ = writeln!(self.text, "POST stats free_frames={} free_huge={} free_trees={}", st.free_frames, st.free_huge, st.free_trees);
            let _ = writeln!(self.text, "POST tree_stats free_frames={} free_trees={}", ts.free_frames, ts.free_trees);
            let q = QUIET.with(|t| t.replace(true));
            let alloc: &LLFree = &self.alloc;
            let v = catch_unwind(AssertUnwindSafe(|| alloc.validate()));
            QUIET.with(|t| t.set(q));
            match v {
                Ok(()) => {
                    let _ = writeln!(self.text, "POST validate ok");
                }
                Err(_) => {
                    let m = PANIC_MSG.with(|m| m.borrow().clone());
                    let _ = writeln!(self.text, "POST validate panic {m}");
                }
            }
            let _ = writeln!(self.text, "POSTEND {}{}", dump_state(self.env.bufs.lower, self.scn.frames), self.dump_upper());
        }
    }
    /// returns false if the call panicked
    fn post_call(&mut self, c: CallSpec) -> bool {
        let r = exec_caught(&self.alloc, c);
        let _ = writeln!(self.text, "POST {} {}", call_text(c), r.text());
        self.account(c, &r);
        !matches!(r, Res::Panic(_))
    }

    fn abort(&mut self) {
        self.aborted = true;
        let stuck: Vec<String> = (0..self.st.len())
            .filter(|&t| self.midcall(t))
            .map(|t| format!("thread {t} in {} after {} steps of the call", self.cur_call[t].map(call_text).unwrap_or_default(), self.call_steps[t]))
            .collect();
        self.hfail(format!("step limit: the run does not terminate within {} scheduled steps ({})", self.sched.len(), stuck.join("; ")));
    }

    fn finish(mut self) -> Done {
        let mut sched: Vec<String> = self.sched.iter().map(|t| t.to_string()).collect();
        if self.aborted {
            // the tail only repeats the steps of the call that does not terminate: keep its first steps (a replay
            // continues round-robin and hits the limit again)
            let spin = (0..self.st.len()).filter(|&t| self.midcall(t)).map(|t| self.call_steps[t]).max().unwrap_or(0);
            sched.truncate(self.sched.len().saturating_sub(spin) + 16);
        }
        let _ = writeln!(self.text, "SCHED {}", sched.join(","));
        if self.aborted {
            // threads are still inside calls: no final dump, no quiescent phase
            return Done { text: self.text, sched: self.sched, nsteps: self.nsteps, hfail: self.hfail, panics: self.panics, aborted: true };
        }
        let _ = writeln!(self.text, "END {}{}", dump_state(self.env.bufs.lower, self.scn.frames), self.dump_upper());
        if self.scn.upper {
            self.post();
        }
        Done { text: self.text, sched: self.sched, nsteps: self.nsteps, hfail: self.hfail, panics: self.panics, aborted: false }
    }
}

struct Done {
    text: String,
    sched: Vec<u8>,
    nsteps: usize,
    hfail: usize,
    panics: usize,
    /// the run hit the step limit (worker threads are stuck inside calls: the process has to stop)
    aborted: bool,
}

// ------------------------------------------------------------------------------------------------
// schedule sources
// ------------------------------------------------------------------------------------------------
#[derive(Default)]
struct Totals {
    runs: u64,
    emitted: u64,
    dups: u64,
    steps: u64,
    hfail: u64,
    panics: u64,
    maxsteps: usize,
}

struct Sink<'a> {
    w: &'a mut dyn Write,
    seen: HashSet<u64>,
    tot: Totals,
}

fn sched_hash(name: &str, s: &[u8]) -> u64 {
    let mut h = 0xcbf2_9ce4_8422_2325u64;
    for b in name.bytes().chain([0xff]).chain(s.iter().copied()) {
        h ^= b as u64;
        h = h.wrapping_mul(0x100_0000_01b3);
    }
    h
}

impl Sink<'_> {
    /// a run that hit the step limit: write what happened and stop (its threads can not be resumed)
    fn stop_if_aborted(&mut self, scn: &Scenario, d: &Done) {
        if d.aborted {
            self.w.write_all(d.text.as_bytes()).unwrap();
            self.w.flush().unwrap();
            eprintln!("schedrun: scenario {} does not terminate (step limit), stopping after {} runs", scn.name, self.tot.runs);
            std::process::exit(0);
        }
    }
    fn emit(&mut self, scn: &Scenario, d: Done, dedup: bool) {
        self.stop_if_aborted(scn, &d);
        self.tot.runs += 1;
        if dedup && !self.seen.insert(sched_hash(&scn.name, &d.sched)) {
            self.tot.dups += 1;
            return;
        }
        self.tot.emitted += 1;
        self.tot.steps += d.nsteps as u64;
        self.tot.hfail += d.hfail as u64;
        self.tot.panics += d.panics as u64;
        self.tot.maxsteps = self.tot.maxsteps.max(d.sched.len());
        self.w.write_all(d.text.as_bytes()).unwrap();
    }
}

/// round-robin: every enabled thread one step in turn
struct RoundRobin {
    t: usize,
}
impl RoundRobin {
    fn pick(&mut self, ex: &mut Exec) -> Option<usize> {
        let n = ex.st.len();
        if !ex.any_enabled() {
            return None;
        }
        loop {
            let t = self.t % n;
            self.t += 1;
            if ex.enabled(t) {
                return Some(t);
            }
        }
    }
}

/// replay: entries naming a thread that cannot move are skipped; then round-robin
struct Replay {
    sched: Vec<usize>,
    pos: usize,
    rr: RoundRobin,
}
impl Replay {
    fn new(sched: &[usize]) -> Self {
        Replay { sched: sched.to_vec(), pos: 0, rr: RoundRobin { t: 0 } }
    }
}
impl Chooser for Replay {
    fn next(&mut self, ex: &mut Exec) -> Option<usize> {
        while self.pos < self.sched.len() {
            let t = self.sched[self.pos];
            self.pos += 1;
            if t < ex.st.len() && ex.enabled(t) {
                return Some(t);
            }
        }
        self.rr.pick(ex)
    }
}

fn run_replay(env: &'static Env, scn: &'static Scenario, sched: &[usize], run: u64, mode: &str) -> Done {
    drive(Exec::new(env, scn, run, mode), Box::new(Replay::new(sched)))
}

/// Preemption-bounded DFS over the schedules of a scenario.  A preemption is a switch away from a
/// thread that is in the middle of a call; switches at call boundaries are free.  A call start is
/// immediately followed by the first access of the same thread (the call start touches no memory,
/// so every schedule is equivalent to one of this shape).
struct Node {
    choices: Vec<u8>,
    idx: usize,
}
const SHARD_DEPTH: usize = 3;
#[derive(Default)]
struct Dfs {
    stack: Vec<Node>,
    bound: usize,
    shard: (u64, u64),
    // per run
    depth: usize,
    preempts: usize,
    branch: Vec<u8>,
    pruned: bool,
}
struct DfsChooser(Arc<Mutex<Dfs>>);
impl Chooser for DfsChooser {
    fn next(&mut self, ex: &mut Exec) -> Option<usize> {
        let mut g = self.0.lock().unwrap();
        let d = &mut *g;
        if !ex.any_enabled() {
            return None;
        }
        let t;
        if d.depth < d.stack.len() {
            let n = &d.stack[d.depth];
            t = n.choices[n.idx] as usize;
            if n.choices.len() > 1 && d.branch.len() < SHARD_DEPTH {
                d.branch.push(n.idx as u8);
            }
        } else {
            let en = ex.enabled_list();
            let mut ch: Vec<u8> = Vec::new();
            match ex.cur {
                Some(c) if ex.st[c] == St::Running(true) => ch.push(c as u8),
                Some(c) if ex.midcall(c) => {
                    ch.push(c as u8);
                    if d.preempts < d.bound && !d.pruned {
                        ch.extend(en.iter().filter(|&&x| x != c).map(|&x| x as u8));
                    }
                }
                _ => {
                    if d.pruned {
                        ch.push(en[0] as u8);
                    } else {
                        ch.extend(en.iter().map(|&x| x as u8));
                    }
                }
            }
            t = ch[0] as usize;
            if ch.len() > 1 && d.branch.len() < SHARD_DEPTH {
                d.branch.push(0);
            }
            d.stack.push(Node { choices: ch, idx: 0 });
        }
        if d.branch.len() == SHARD_DEPTH && !d.pruned && d.shard.1 > 1 && sched_hash("", &d.branch) % d.shard.1 != d.shard.0 {
            d.pruned = true; // another shard owns this subtree: finish the run, explore nothing below
        }
        if let Some(c) = ex.cur {
            if t != c && ex.midcall(c) {
                d.preempts += 1;
            }
        }
        d.depth += 1;
        Some(t)
    }
}

fn run_exhaustive(env: &'static Env, scn: &'static Scenario, bound: usize, shard: (u64, u64), max_runs: u64, sink: &mut Sink, run0: &mut u64) {
    let dfs = Arc::new(Mutex::new(Dfs { bound, shard, ..Default::default() }));
    let mut count = 0u64;
    loop {
        {
            let mut d = dfs.lock().unwrap();
            d.depth = 0;
            d.preempts = 0;
            d.branch.clear();
            d.pruned = false;
        }
        let done = drive(Exec::new(env, scn, *run0, "exhaustive"), Box::new(DfsChooser(dfs.clone())));
        sink.stop_if_aborted(scn, &done);
        let mut d = dfs.lock().unwrap();
        let mine = if d.branch.len() == SHARD_DEPTH { !d.pruned } else { shard.1 <= 1 || sched_hash("", &d.branch) % shard.1 == shard.0 };
        if mine {
            sink.emit(scn, done, false);
            *run0 += 1;
            count += 1;
        }
        // backtrack
        loop {
            match d.stack.last_mut() {
                None => break,
                Some(n) if n.idx + 1 < n.choices.len() => {
                    n.idx += 1;
                    break;
                }
                Some(_) => {
                    d.stack.pop();
                }
            }
        }
        if d.stack.is_empty() || count >= max_runs {
            break;
        }
    }
}

/// PCT (Burckhardt et al.): random thread priorities, `depth - 1` priority change points
struct Pct {
    prio: Vec<usize>,
    change: Vec<usize>,
    depth: usize,
    s: usize,
}
impl Pct {
    fn new(n: usize, rng: &mut Rng, depth: usize, klen: usize) -> Self {
        let mut prio: Vec<usize> = (0..n).map(|i| depth + i).collect();
        for i in (1..n).rev() {
            let j = rng.below(i as u64 + 1) as usize;
            prio.swap(i, j);
        }
        let mut change: Vec<usize> = (0..depth.saturating_sub(1)).map(|_| rng.below(klen.max(1) as u64) as usize).collect();
        change.sort();
        Pct { prio, change, depth, s: 0 }
    }
}
impl Chooser for Pct {
    fn next(&mut self, ex: &mut Exec) -> Option<usize> {
        let en = ex.enabled_list();
        if en.is_empty() {
            return None;
        }
        let mut best = *en.iter().max_by_key(|&&t| self.prio[t]).unwrap();
        for i in 0..self.change.len() {
            if self.change[i] == self.s {
                self.prio[best] = self.depth - 1 - i.min(self.depth - 1);
                best = *en.iter().max_by_key(|&&t| self.prio[t]).unwrap();
            }
        }
        self.s += 1;
        Some(best)
    }
}

fn default_budget() -> usize {
    2 * TREE_HUGE * (4 + 3 * ROWS) + 16
}

/// the base run of freeze mode: remembers who is in the middle of a call after every step
struct FreezeBase {
    inner: Replay,
    mid: Arc<Mutex<Vec<Vec<usize>>>>,
}
impl Chooser for FreezeBase {
    fn next(&mut self, ex: &mut Exec) -> Option<usize> {
        if !ex.sched.is_empty() {
            let m: Vec<usize> = (0..ex.st.len()).filter(|&x| ex.midcall(x)).collect();
            self.mid.lock().unwrap().push(m);
        }
        self.inner.next(ex)
    }
}

/// freeze mode: replay k steps of the base schedule, then thread t alone until its call returns
struct Freeze {
    prefix: Vec<usize>,
    pos: usize,
    t: usize,
    phase: u8,
    solo: usize,
    before: usize,
    budget: usize,
    rr: RoundRobin,
}
impl Chooser for Freeze {
    fn next(&mut self, ex: &mut Exec) -> Option<usize> {
        if self.phase == 0 {
            if self.pos < self.prefix.len() {
                self.pos += 1;
                return Some(self.prefix[self.pos - 1]);
            }
            self.phase = 1;
            self.before = ex.call_steps[self.t];
        }
        let (t, k) = (self.t, self.prefix.len());
        if self.phase == 1 {
            if ex.midcall(t) {
                self.solo += 1;
                if self.solo == self.budget + 1 {
                    ex.hfail(format!("solo budget: thread {t} frozen at step {k} exceeds {} steps", self.budget));
                    // The call may never return (or recurse until the stack overflows): hand the run so far to
                    // the driver right away and stop the process; exceeding the budget already is the violation.
                    use std::io::Write as _;
                    let out = std::io::stdout();
                    let mut out = out.lock();
                    let _ = write!(out, "{}END-ABORTED\n", ex.text);
                    let _ = out.flush();
                    eprintln!("schedrun: solo run exceeds its step budget, giving up");
                    std::process::exit(3);
                }
                if self.solo > 100 * self.budget + 1000 {
                    // hand the run so far (incl. the `HFAIL solo budget` line) to the driver, then stop:
                    // the thread cannot be cancelled, so the process ends here
                    {
                        use std::io::Write as _;
                        let out = std::io::stdout();
                        let mut out = out.lock();
                        let _ = write!(out, "{}HFAIL solo stuck: thread {t} frozen at step {k} does not finish within {} steps\nEND-ABORTED\n", ex.text, 100 * self.budget + 1000);
                        let _ = out.flush();
                    }
                    eprintln!("schedrun: solo run does not terminate, giving up");
                    std::process::exit(3);
                }
                return Some(t);
            }
            let res = ex.last_res[t].clone().map(|r| r.text()).unwrap_or_else(|| "none".into());
            let _ = writeln!(
                ex.text,
                "SOLO {t} steps={} before={} frozen_at={k} budget={} result={res}",
                self.solo, self.before, self.budget
            );
            self.phase = 2;
        }
        self.rr.pick(ex)
    }
}

#[allow(clippy::too_many_arguments)]
fn run_freeze(env: &'static Env, scn: &'static Scenario, base: &[usize], budget: usize, sample: usize, rng: &mut Rng, sink: &mut Sink, run0: &mut u64) {
    let mid = Arc::new(Mutex::new(Vec::new()));
    let done = drive(
        Exec::new(env, scn, *run0, "freeze-base"),
        Box::new(FreezeBase { inner: Replay::new(base), mid: mid.clone() }),
    );
    let actual: Vec<usize> = done.sched.iter().map(|&t| t as usize).collect();
    sink.emit(scn, done, true);
    *run0 += 1;
    let mid = mid.lock().unwrap().clone();
    let mut points: Vec<(usize, usize)> = Vec::new();
    for (k, m) in mid.iter().enumerate() {
        for &t in m {
            points.push((k + 1, t));
        }
    }
    if sample > 0 && points.len() > sample {
        for i in 0..sample {
            let j = i + rng.below((points.len() - i) as u64) as usize;
            points.swap(i, j);
        }
        points.truncate(sample);
        points.sort();
    }
    for (k, t) in points {
        let ch = Freeze { prefix: actual[..k].to_vec(), pos: 0, t, phase: 0, solo: 0, before: 0, budget, rr: RoundRobin { t: 0 } };
        let done = drive(Exec::new(env, scn, *run0, "freeze"), Box::new(ch));
        sink.emit(scn, done, false);
        *run0 += 1;
    }
}

// ------------------------------------------------------------------------------------------------
// startup checks of the layout assumptions
// ------------------------------------------------------------------------------------------------
fn check_layout(env: &Env) {
    let frames = env.frames;
    let classing = Classing::simple(1).0;
    let m = LLFree::metadata_size(&classing, frames);
    assert_eq!(m.lower, nbf(frames) * BF_SIZE + ntab(frames) * TAB_SIZE, "lower metadata size");
    assert_eq!(env.bufs.lower as usize % 64, 0);
    env.bufs.zero();
    let a = LLFree::new(frames, Init::FreeAll, &classing, env.bufs.meta()).expect("new");
    let lo = env.bufs.lower as usize;
    let tbase = lo + nbf(frames) * BF_SIZE;
    let ent = |h: usize| read_mem(tbase + (h / TREE_HUGE) * TAB_SIZE + 2 * (h % TREE_HUGE), 2);
    let row = |h: usize, r: usize| read_mem(lo + h * BF_SIZE + 8 * r, 8);
    for h in 0..nbf(frames) {
        assert_eq!(ent(h) as usize, HUGE_FRAMES.min(frames - h * HUGE_FRAMES), "free entry {h}");
    }
    // single frames: bit (f % 64) of row (f / 64) % ROWS of bitfield f / HUGE_FRAMES; counter of entry f / HUGE_FRAMES
    let mut probes = vec![0usize, 1, 63, 64, 65, HUGE_FRAMES - 1, frames - 1];
    if frames > HUGE_FRAMES {
        probes.push(HUGE_FRAMES + 70);
    }
    probes.sort();
    probes.dedup();
    for &f in &probes {
        let h = f / HUGE_FRAMES;
        let (e0, r0) = (ent(h), row(h, (f / 64) % ROWS));
        assert_eq!(lower_get(&a, f / 64, 0, Some(f)), Ok(f));
        assert_eq!(ent(h), e0 - 1, "entry of frame {f}");
        assert_eq!(row(h, (f / 64) % ROWS), r0 | 1 << (f % 64), "bit of frame {f}");
        assert_eq!(lower_put(&a, f, 0), Ok(()));
        assert_eq!((ent(h), row(h, (f / 64) % ROWS)), (e0, r0));
    }
    // narrow lanes are little endian within the row
    assert_eq!(lower_get(&a, 0, 3, Some(72)), Ok(72));
    assert_eq!(read_mem(lo + 8 + 1, 1), 0xff, "byte lane of frame 72");
    assert_eq!(row(0, 1), 0xff00);
    assert_eq!(lower_put(&a, 72, 3), Ok(()));
    // huge entries
    for h in 0..frames / HUGE_FRAMES {
        assert_eq!(lower_get(&a, h * ROWS, HUGE_ORDER, Some(h * HUGE_FRAMES)), Ok(h * HUGE_FRAMES));
        assert_eq!(ent(h), 0xffff, "marker of huge frame {h}");
        assert_eq!(lower_put(&a, h * HUGE_FRAMES, HUGE_ORDER), Ok(()));
        assert_eq!(ent(h) as usize, HUGE_FRAMES);
    }
    // padding behind the entries stays zero
    for t in 0..ntab(frames) {
        for b in (2 * TREE_HUGE..TAB_SIZE).step_by(2) {
            assert_eq!(read_mem(tbase + t * TAB_SIZE + b, 2), 0, "table padding");
        }
    }
    drop(a);
}

fn parse_sched(s: &str) -> Vec<usize> {
    s.split(',').map(|x| x.trim()).filter(|x| !x.is_empty() && *x != "-").map(|x| x.parse().expect("--schedule t,t,..")).collect()
}

fn usage() -> ! {
    eprintln!(
        "usage: schedrun --mode exhaustive|pct|replay|freeze --scenario <name,name,..|all> [--scenario-file f] [--api lower|upper]\n\
         \x20  [--preemptions P] [--runs N] [--depth d] [--seed s] [--schedule 0,1,0,..] [--budget B] [--sample m]\n\
         \x20  [--snapshots] [--shard i/n] [--max-runs M] [--max-steps N] [--spin n] [--out file] [--list] [--verbose]"
    );
    std::process::exit(2)
}

fn main() {
    let args = Args::parse();
    // `--api lower` (default): the scenarios that call the lower allocator directly; `--api upper`: LLFree's API
    let upper = match args.get("api") {
        Some("upper") => true,
        Some("lower") | None => false,
        Some(x) => {
            eprintln!("schedrun: unknown --api {x}");
            std::process::exit(2)
        }
    };
    let all: Vec<Scenario> = builtin();
    if args.flag("list") {
        // `--list` shows the scenarios of `--scenario all`; `--list --scenario <group>` the ones of a group
        let grp = args.get("scenario").filter(|g| *g != "all").unwrap_or("");
        for s in all.iter().filter(|s| if grp.is_empty() { s.upper == upper && s.group.is_empty() } else { s.group == grp }) {
            println!(
                "{} threads={} init={} frames={}{}{}",
                s.name,
                s.threads.len(),
                if s.alloc_all { "alloc" } else { "free" },
                s.frames,
                if s.upper { format!(" api=upper {}", s.cfg.text()) } else { String::new() },
                if s.group.is_empty() { String::new() } else { format!(" group={}", s.group) }
            );
        }
        return;
    }
    let mode = args.get("mode").unwrap_or_else(|| usage()).to_string();
    let seed = args.num("seed", 1);
    let mut scns: Vec<Scenario> = Vec::new();
    if let Some(f) = args.get("scenario-file") {
        scns.push(scenario_from_file(f));
    }
    match args.get("scenario") {
        Some("all") => scns.extend(all.iter().filter(|s| s.upper == upper && s.group.is_empty()).cloned()),
        Some(list) => {
            for n in list.split(',') {
                if all.iter().any(|s| !s.group.is_empty() && s.group == n) {
                    scns.extend(all.iter().filter(|s| s.group == n).cloned());
                    continue;
                }
                match all.iter().find(|s| s.name == n) {
                    Some(s) => scns.push(s.clone()),
                    None => {
                        eprintln!("schedrun: unknown scenario {n} (geometry tree_huge={TREE_HUGE})");
                        std::process::exit(2);
                    }
                }
            }
        }
        None => {}
    }
    if scns.is_empty() {
        usage();
    }
    let scns: &'static [Scenario] = Box::leak(scns.into_boxed_slice());
    let shard: (u64, u64) = match args.get("shard") {
        Some(s) => {
            let (a, b) = s.split_once('/').expect("--shard i/n");
            (a.parse().expect("shard"), b.parse().expect("shard"))
        }
        None => (0, 1),
    };
    SPIN.store(args.num("spin", 100) as usize, Ordering::Relaxed);
    MAX_STEPS.store(args.num("max-steps", 5000) as usize, Ordering::Relaxed);

    // panics of the code under test: remember "<file>:<line> <message>" for the catching thread
    std::panic::set_hook(Box::new(|info| {
        let loc = info.location().map(|l| format!("{}:{}", l.file().rsplit('/').next().unwrap_or("?"), l.line())).unwrap_or_else(|| "?:0".into());
        let msg = if let Some(s) = info.payload().downcast_ref::<&str>() {
            s.to_string()
        } else if let Some(s) = info.payload().downcast_ref::<String>() {
            s.clone()
        } else {
            "?".into()
        };
        let msg = msg.replace(['\n', '\r'], " ");
        let text = format!("{loc} {msg}");
        if !QUIET.with(|t| t.get()) {
            eprintln!("schedrun: panic {text}");
        }
        PANIC_MSG.with(|m| *m.borrow_mut() = text);
    }));

    let me = std::thread::current();
    MAIN_T.with(|m| *m.borrow_mut() = Some(me.clone()));
    let mut threads = Vec::new();
    for tid in 0..MAXT {
        let m = me.clone();
        let h = std::thread::Builder::new().name(format!("w{tid}")).spawn(move || worker(tid, m)).expect("spawn");
        threads.push(h.thread().clone());
    }
    *THREADS.lock().unwrap() = threads;
    set_hooks(Some((hook_before, hook_after)));

    let mut w = out(args.get("out"));
    let mut sink = Sink { w: &mut *w, seen: HashSet::new(), tot: Totals::default() };
    let mut run = 0u64;
    let t0 = std::time::Instant::now();
    let snapshots = args.flag("snapshots");
    let mut per: Vec<(String, u64)> = Vec::new();

    // one environment per buffer size (scenarios use 1-2 trees)
    let mut sizes: Vec<usize> = scns.iter().map(|s| s.frames).collect();
    sizes.sort();
    sizes.dedup();
    for frames in sizes {
        let classing = Classing::simple(1).0;
        let env: &'static Env = Box::leak(Box::new(Env {
            bufs: Bufs::new(frames, &classing),
            snap: Bufs::new(frames, &classing),
            frames,
            snapshots,
        }));
        check_layout(env);
        for scn in scns.iter().filter(|s| s.frames == frames) {
            let before = sink.tot.emitted;
            match mode.as_str() {
                "exhaustive" => {
                    let p = args.num("preemptions", 2) as usize;
                    run_exhaustive(env, scn, p, shard, args.num("max-runs", u64::MAX), &mut sink, &mut run);
                }
                "pct" => {
                    let runs = args.num("runs", 100);
                    let depth = args.num("depth", 3) as usize;
                    // length estimate: the round-robin run
                    let probe = run_replay(env, scn, &[], 0, "probe");
                    sink.stop_if_aborted(scn, &probe);
                    let klen = probe.sched.len();
                    for r in 0..runs {
                        if r % shard.1 != shard.0 {
                            continue;
                        }
                        let mut rng = Rng::new(seed ^ sched_hash(&scn.name, &[]).rotate_left(17) ^ r.wrapping_mul(0x9e37_79b9_7f4a_7c15));
                        let d = 1 + rng.below(depth.max(1) as u64) as usize;
                        let ch = Pct::new(scn.threads.len(), &mut rng, d, klen + klen / 2);
                        let done = drive(Exec::new(env, scn, run, "pct"), Box::new(ch));
                        sink.emit(scn, done, true);
                        run += 1;
                    }
                }
                "replay" => {
                    let sched = parse_sched(args.get("schedule").unwrap_or(""));
                    let d = run_replay(env, scn, &sched, run, "replay");
                    sink.emit(scn, d, false);
                    run += 1;
                }
                "freeze" => {
                    let budget = args.num("budget", default_budget() as u64) as usize;
                    let sample = args.num("sample", 0) as usize;
                    let mut rng = Rng::new(seed ^ sched_hash(&scn.name, &[]) ^ 0x5eed);
                    let mut bases: Vec<Vec<usize>> = Vec::new();
                    if let Some(s) = args.get("schedule") {
                        bases.push(parse_sched(s));
                    } else {
                        bases.push(vec![]); // round-robin
                        let probe = run_replay(env, scn, &[], 0, "probe");
                    sink.stop_if_aborted(scn, &probe);
                    let klen = probe.sched.len();
                        for _ in 0..args.num("runs", 4) {
                            let d = 1 + rng.below(3) as usize;
                            let ch = Pct::new(scn.threads.len(), &mut rng, d, klen + klen / 2);
                            let done = drive(Exec::new(env, scn, 0, "probe"), Box::new(ch));
                            sink.stop_if_aborted(scn, &done);
                            bases.push(done.sched.iter().map(|&t| t as usize).collect());
                        }
                        bases.sort();
                        bases.dedup();
                    }
                    for (bi, b) in bases.iter().enumerate() {
                        if bi as u64 % shard.1 != shard.0 {
                            continue;
                        }
                        run_freeze(env, scn, b, budget, sample, &mut rng, &mut sink, &mut run);
                    }
                }
                _ => usage(),
            }
            per.push((scn.name.clone(), sink.tot.emitted - before));
        }
    }
    let tot = sink.tot;
    w.flush().unwrap();
    let dt = t0.elapsed().as_secs_f64();
    eprintln!(
        "schedrun: mode={mode} runs={} emitted={} dups={} steps={} maxlen={} hfail={} panics={} time={:.2}s steps/s={:.0}",
        tot.runs,
        tot.emitted,
        tot.dups,
        tot.steps,
        tot.maxsteps,
        tot.hfail,
        tot.panics,
        dt,
        tot.steps as f64 / dt.max(1e-9)
    );
    if args.flag("verbose") {
        for (n, c) in per {
            eprintln!("  {n}: {c}");
        }
    }
    // workers are parked inside their loops: leave without joining
    std::process::exit(0);
}

thread_local! {
    /// expected panics (code under test, snapshots of a crashing recover) are not echoed
    static QUIET: Cell<bool> = const { Cell::new(false) };
}
