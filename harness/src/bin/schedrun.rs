//! Concurrent (small-step) correspondence harness of the lower allocator (machine M1, LowerMachine.v).
//!
//! 1-4 real OS threads share ONE allocator and run under a deterministic baton-passing scheduler
//! that is driven by the `verif` hooks of `Atom`: a worker blocks in the `before` hook (and at the
//! boundary between two calls) until the scheduler grants it exactly one step.  A granted worker
//! runs from its scheduling point through one atomic access up to its next scheduling point, so at
//! any time exactly one thread runs and an execution is a function of (scenario, schedule).  The
//! scheduler is not a thread of its own: whoever holds the baton records its step, asks the
//! schedule source for the next thread and either continues itself (no context switch) or wakes
//! that thread and blocks; the main thread only starts a run and collects its transcript.  A schedule is a list of thread ids; an entry
//! is either "start the next call" (no memory access, `CALL` line; `mstep` of an idle thread) or
//! "one atomic access" (`S` line).
//!
//! Transcript (one block per run):
//!   RUN <n> scenario=<name> mode=<mode>
//!   CFG huge_order=.. tree_huge=.. frames=.. init=free|alloc threads=N
//!   PRE <get s o|getat f o|put f o> <result>          sequential prologue (main thread, no hooks)
//!   CALL <tid> get <start_row> <order> | getat <frame> <order> | put <frame> <order>
//!   S <tid> <load|cas|store|swap|rmw> <ent|row> <huge> <row> <bitoff> <width> <found hex> <new hex|-> <ok>
//!       (`new` of a failed CAS is `-`: the hooks do not see the value it wanted to write)
//!   X <tid> <kind> <trees|local|lowerpad|other> <byte offset> <width> <found> <new|-> <ok>   access outside lower
//!   RET <tid> ok <frame> | ok | err mem|arg|init | panic <file:line> <msg>
//!   SNAP <step> ents=.. rows=.. stats=ff,fh,ft | SNAP <step> panic <file:line> <msg>
//!       (--snapshots) a crash here: the lower buffer is copied and recovered (`Init::Recover`, fresh
//!       zeroed trees/local buffers); printed after the prologue and after every step that wrote to
//!       the lower buffer, i.e. once for every memory state = before every write and at the end
//!   SOLO <tid> steps=<n> before=<steps of the call before the freeze> frozen_at=<k> budget=<B> result=<..>
//!       (freeze mode, after the RET of the call that ran alone)
//!   HFAIL <text>                                        harness-side oracle
//!   SCHED <tid,tid,...>                                 the schedule that was executed
//!   END ents=<hex u16,...> rows=<row,row,..;row,...>
//!
//! Modes (`--mode`):
//!   exhaustive  all schedules of a scenario with at most `--preemptions P` preemptions (DFS; a
//!               preemption = switching away from a thread in the middle of a call)
//!   pct         `--runs N` PCT schedules (random priorities, up to `--depth d` - 1 change points), `--seed`
//!   replay      `--schedule 0,0,1,..`; entries of threads that cannot move are skipped, afterwards
//!               the remaining threads run round-robin
//!   freeze      after every prefix of a base schedule (`--schedule`, or round-robin + `--runs` PCT
//!               schedules; `--sample m` points per base) every in-flight call runs alone: SOLO lines,
//!               `HFAIL solo budget` beyond `--budget B` steps
//! `--shard i/n` partitions the schedules of a mode (DFS subtrees / run indices) for parallel runs.
//! Scenarios: `--scenario name,name|all` (`--list`), `--scenario-file f` (NAME/INIT/TREES|FRAMES/PRE/CALL
//! lines, or a transcript block).  `putlast <order>` frees the block of the thread's latest get.
use std::cell::{Cell, RefCell};
use std::collections::HashSet;
use std::fmt::Write as FmtWrite;
use std::io::Write;
use std::panic::{AssertUnwindSafe, catch_unwind};
use std::sync::{Arc, Mutex};
use std::sync::atomic::{AtomicU8, AtomicU16, AtomicU32, AtomicU64, AtomicUsize, Ordering};
use std::thread::Thread;

use llfree::verif::{Kind, lower_get, lower_put, set_hooks};
use llfree::{
    Alloc, Classing, Error, HUGE_FRAMES, HUGE_ORDER, Init, LLFree, MetaData, TREE_FRAMES, TREE_HUGE, TREE_ORDER,
};
use llfree_verif_harness::{Args, Rng, out};

const MAXT: usize = 4;
const NONE: usize = usize::MAX;
const ROWS: usize = HUGE_FRAMES / 64;
/// bytes of one `Align<Bitfield>` and of one `Align<[HugeEntry; TREE_HUGE]>`
const BF_SIZE: usize = (HUGE_FRAMES / 8).next_multiple_of(64);
const TAB_SIZE: usize = (2 * TREE_HUGE).next_multiple_of(64);

// ------------------------------------------------------------------------------------------------
// calls, results, events
// ------------------------------------------------------------------------------------------------
#[derive(Clone, Copy, Debug, PartialEq, Eq)]
enum CallSpec {
    Get(usize, usize),
    GetAt(usize, usize),
    Put(usize, usize),
    /// free the block returned by this thread's most recent successful get (dropped if there is none)
    PutLast(usize),
}

#[derive(Clone, Debug, PartialEq, Eq)]
enum Res {
    Frame(usize),
    Unit,
    Err(&'static str),
    Panic(String),
}
impl Res {
    fn text(&self) -> String {
        match self {
            Res::Frame(f) => format!("ok {f}"),
            Res::Unit => "ok".into(),
            Res::Err(e) => format!("err {e}"),
            Res::Panic(m) => format!("panic {m}"),
        }
    }
}

fn call_text(c: CallSpec) -> String {
    match c {
        CallSpec::Get(s, o) => format!("get {s} {o}"),
        CallSpec::GetAt(f, o) => format!("getat {f} {o}"),
        CallSpec::Put(f, o) => format!("put {f} {o}"),
        CallSpec::PutLast(o) => format!("putlast {o}"),
    }
}

enum Ev {
    Call(usize, CallSpec),
    Step { tid: usize, kind: Kind, addr: usize, width: usize, pre: u64, val: u64, newv: u64, ok: bool },
    Ret(usize, Res),
}

// ------------------------------------------------------------------------------------------------
// shared state between the scheduler (main) and the workers
// ------------------------------------------------------------------------------------------------
static GO: [AtomicU32; MAXT] = [const { AtomicU32::new(0) }; MAXT];
static BACK: AtomicU32 = AtomicU32::new(0);
static SPIN: AtomicUsize = AtomicUsize::new(100);
static ALLOC: AtomicUsize = AtomicUsize::new(0);
static EVENTS: Mutex<Vec<Ev>> = Mutex::new(Vec::new());
static NEXT_CALL: Mutex<[Option<CallSpec>; MAXT]> = Mutex::new([None; MAXT]);
static THREADS: Mutex<Vec<Thread>> = Mutex::new(Vec::new());
/// the run in progress: owned by whoever holds the baton
static DRV: Mutex<Option<Driver>> = Mutex::new(None);

struct Driver {
    ex: Exec<'static>,
    chooser: Box<dyn Chooser>,
}
unsafe impl Send for Driver {}

/// a schedule source: which thread makes the next step (None: the run is over)
trait Chooser {
    fn next(&mut self, ex: &mut Exec) -> Option<usize>;
}

thread_local! {
    static TID: Cell<usize> = const { Cell::new(NONE) };
    static PRE: Cell<u64> = const { Cell::new(0) };
    static PANIC_MSG: RefCell<String> = const { RefCell::new(String::new()) };
    static MAIN_T: RefCell<Option<Thread>> = const { RefCell::new(None) };
    /// inside the scheduler (snapshots run allocator code on this thread): hooks pass through
    static IN_SCHED: Cell<bool> = const { Cell::new(false) };
    static WORKERS: RefCell<Vec<Thread>> = const { RefCell::new(Vec::new()) };
}

fn read_mem(addr: usize, width: usize) -> u64 {
    unsafe {
        match width {
            1 => (*(addr as *const AtomicU8)).load(Ordering::SeqCst) as u64,
            2 => (*(addr as *const AtomicU16)).load(Ordering::SeqCst) as u64,
            4 => (*(addr as *const AtomicU32)).load(Ordering::SeqCst) as u64,
            8 => (*(addr as *const AtomicU64)).load(Ordering::SeqCst),
            _ => 0,
        }
    }
}

fn wait_flag(f: &AtomicU32) {
    let spin = SPIN.load(Ordering::Relaxed);
    let mut n = 0usize;
    loop {
        if f.load(Ordering::Acquire) == 1 {
            f.store(0, Ordering::Relaxed);
            return;
        }
        if n < spin {
            n += 1;
            std::hint::spin_loop();
        } else {
            // futex wait; a stale token only costs one more round
            std::thread::park();
        }
    }
}

/// hand the baton to worker `t`
fn wake(t: usize) {
    GO[t].store(1, Ordering::Release);
    WORKERS.with(|w| {
        let w = w.borrow();
        if let Some(th) = w.get(t) {
            th.unpark();
        } else {
            drop(w);
            let ths = THREADS.lock().unwrap().clone();
            ths[t].unpark();
            WORKERS.with(|w| *w.borrow_mut() = ths);
        }
    });
}

fn wake_main() {
    BACK.store(1, Ordering::Release);
    MAIN_T.with(|m| {
        if let Some(t) = m.borrow().as_ref() {
            t.unpark()
        }
    });
}

/// The holder of the baton is at a scheduling point: record what it did, ask for the next thread.
/// Returns true if `me` continues (it was chosen again); otherwise the baton has been passed on.
fn sched_point(me: usize) -> bool {
    IN_SCHED.with(|s| s.set(true));
    let next = {
        let mut g = DRV.lock().unwrap();
        let d = g.as_mut().expect("scheduling point without a run");
        d.ex.absorb();
        let n = d.chooser.next(&mut d.ex);
        if let Some(t) = n {
            d.ex.prepare(t);
        }
        n
    };
    IN_SCHED.with(|s| s.set(false));
    match next {
        Some(t) if t == me => true,
        Some(t) => {
            wake(t);
            false
        }
        None => {
            wake_main();
            false
        }
    }
}

fn hook_before(_kind: Kind, addr: usize, width: usize) {
    let tid = TID.with(|t| t.get());
    if tid == NONE || IN_SCHED.with(|s| s.get()) {
        return;
    }
    if !sched_point(tid) {
        wait_flag(&GO[tid]);
    }
    PRE.with(|p| p.set(read_mem(addr, width)));
}

fn hook_after(kind: Kind, addr: usize, width: usize, value: u64, ok: bool) {
    let tid = TID.with(|t| t.get());
    if tid == NONE || IN_SCHED.with(|s| s.get()) {
        return;
    }
    let newv = read_mem(addr, width);
    let pre = PRE.with(|p| p.get());
    EVENTS.lock().unwrap().push(Ev::Step { tid, kind, addr, width, pre, val: value, newv, ok });
}

fn err_text(e: Error) -> &'static str {
    match e {
        Error::Memory => "mem",
        Error::Argument => "arg",
        Error::Initialization => "init",
    }
}

fn exec(alloc: &LLFree, c: CallSpec) -> Res {
    match c {
        CallSpec::Get(s, o) => match lower_get(alloc, s, o, None) {
            Ok(f) => Res::Frame(f),
            Err(e) => Res::Err(err_text(e)),
        },
        CallSpec::GetAt(f, o) => match lower_get(alloc, f / 64, o, Some(f)) {
            Ok(f) => Res::Frame(f),
            Err(e) => Res::Err(err_text(e)),
        },
        CallSpec::Put(f, o) => match lower_put(alloc, f, o) {
            Ok(()) => Res::Unit,
            Err(e) => Res::Err(err_text(e)),
        },
        CallSpec::PutLast(_) => unreachable!("putlast is resolved by the scheduler"),
    }
}

fn exec_caught(alloc: &LLFree, c: CallSpec) -> Res {
    let q = QUIET.with(|t| t.replace(true));
    let r = catch_unwind(AssertUnwindSafe(|| exec(alloc, c)));
    QUIET.with(|t| t.set(q));
    match r {
        Ok(r) => r,
        Err(_) => Res::Panic(PANIC_MSG.with(|m| m.borrow().clone())),
    }
}

fn worker(tid: usize, main: Thread) {
    TID.with(|t| t.set(tid));
    MAIN_T.with(|m| *m.borrow_mut() = Some(main));
    let mut granted = false;
    loop {
        // the boundary between two calls is a scheduling point
        if !granted {
            wait_flag(&GO[tid]);
        }
        let c = NEXT_CALL.lock().unwrap()[tid].take().expect("granted without a call");
        EVENTS.lock().unwrap().push(Ev::Call(tid, c));
        let alloc = unsafe { &*(ALLOC.load(Ordering::Acquire) as *const LLFree<'static>) };
        let r = exec_caught(alloc, c);
        EVENTS.lock().unwrap().push(Ev::Ret(tid, r));
        granted = sched_point(tid);
    }
}

/// main thread: run `ex` under `chooser` to completion
fn drive(ex: Exec<'static>, chooser: Box<dyn Chooser>) -> Done {
    *DRV.lock().unwrap() = Some(Driver { ex, chooser });
    if !sched_point(NONE) {
        // the baton is with the workers until the schedule source says the run is over
        wait_flag(&BACK);
    }
    let d = DRV.lock().unwrap().take().expect("driver");
    d.ex.finish()
}

// ------------------------------------------------------------------------------------------------
// buffers and layout
// ------------------------------------------------------------------------------------------------
struct Bufs {
    lower: *mut u8,
    lower_len: usize,
    trees: *mut u8,
    trees_len: usize,
    local: *mut u8,
    local_len: usize,
}
impl Bufs {
    fn new(frames: usize, classing: &Classing) -> Self {
        let m = LLFree::metadata_size(classing, frames);
        let a = |n: usize| llfree::util::aligned_buf(n.max(64)).as_mut_ptr();
        Bufs { lower: a(m.lower), lower_len: m.lower, trees: a(m.trees), trees_len: m.trees, local: a(m.local), local_len: m.local }
    }
    fn zero(&self) {
        unsafe {
            std::ptr::write_bytes(self.lower, 0, self.lower_len);
            std::ptr::write_bytes(self.trees, 0, self.trees_len);
            std::ptr::write_bytes(self.local, 0, self.local_len);
        }
    }
    fn meta(&self) -> MetaData<'static> {
        unsafe {
            MetaData {
                local: std::slice::from_raw_parts_mut(self.local, self.local_len),
                trees: std::slice::from_raw_parts_mut(self.trees, self.trees_len),
                lower: std::slice::from_raw_parts_mut(self.lower, self.lower_len),
            }
        }
    }
}

fn nbf(frames: usize) -> usize {
    frames.div_ceil(HUGE_FRAMES)
}
fn ntab(frames: usize) -> usize {
    frames.div_ceil(TREE_FRAMES)
}

/// `ents=.. rows=..` of a lower buffer
fn dump_state(lower: *const u8, frames: usize) -> String {
    let mut s = String::with_capacity(256);
    s.push_str("ents=");
    let tbase = nbf(frames) * BF_SIZE;
    for t in 0..ntab(frames) {
        for j in 0..TREE_HUGE {
            if t + j > 0 {
                s.push(',');
            }
            let v = read_mem(lower as usize + tbase + t * TAB_SIZE + 2 * j, 2);
            let _ = write!(s, "{v:x}");
        }
    }
    s.push_str(" rows=");
    for h in 0..nbf(frames) {
        if h > 0 {
            s.push(';');
        }
        for r in 0..ROWS {
            if r > 0 {
                s.push(',');
            }
            let v = read_mem(lower as usize + h * BF_SIZE + 8 * r, 8);
            let _ = write!(s, "{v:x}");
        }
    }
    s
}

/// where a hooked address lies
enum Loc {
    Row { h: usize, r: usize, bit: usize },
    Ent { h: usize },
    Other(&'static str, usize),
}

// ------------------------------------------------------------------------------------------------
// scenarios
// ------------------------------------------------------------------------------------------------
#[derive(Clone, Debug)]
struct Scenario {
    name: String,
    alloc_all: bool,
    frames: usize,
    pre: Vec<CallSpec>,
    threads: Vec<Vec<CallSpec>>,
}

fn builtin() -> Vec<Scenario> {
    use CallSpec::*;
    let hf = HUGE_FRAMES;
    let ho = HUGE_ORDER;
    let to = TREE_ORDER;
    let tf = TREE_FRAMES;
    let rows_h = ROWS; // rows per huge frame
    let v = RefCell::new(Vec::<Scenario>::new());
    let add_frames = |name: &str, alloc_all: bool, frames: usize, pre: Vec<CallSpec>, threads: Vec<Vec<CallSpec>>| {
        v.borrow_mut().push(Scenario { name: name.into(), alloc_all, frames, pre, threads });
    };
    let add = |name: &str, alloc_all: bool, trees: usize, pre: Vec<CallSpec>, threads: Vec<Vec<CallSpec>>| {
        add_frames(name, alloc_all, trees * tf, pre, threads)
    };
    // --- two base gets on the same tree
    add("get0-get0", false, 1, vec![], vec![vec![Get(0, 0)], vec![Get(0, 0)]]);
    // only frame 63 of row 0 is free: one thread takes it, the other moves on to row 1
    add(
        "get0-get0-lastbit",
        false,
        1,
        vec![GetAt(0, 5), GetAt(32, 4), GetAt(48, 3), GetAt(56, 2), GetAt(60, 1), GetAt(62, 0)],
        vec![vec![Get(0, 0)], vec![Get(0, 0)]],
    );
    add("get1-get2", false, 1, vec![], vec![vec![Get(0, 1)], vec![Get(0, 2)]]);
    add("get0-get0-2trees", false, 2, vec![], vec![vec![Get(0, 0)], vec![Get(tf / 64, 0)]]);
    // --- order 0 vs multi-row orders in the same huge frame  [D12]
    add("get7-get0", false, 1, vec![], vec![vec![Get(0, 7)], vec![Get(0, 0)]]);
    add("get8-get0", false, 1, vec![], vec![vec![Get(0, 8)], vec![Get(0, 0)]]);
    // the order-0 get starts in row 1: the order-7 get sets row 0, fails on row 1, rolls back
    add("get7-get0row1", false, 1, vec![], vec![vec![Get(0, 7)], vec![Get(1, 0)]]);
    add("get8-get0row2", false, 1, vec![], vec![vec![Get(0, 8)], vec![Get(2, 0)]]);
    add("get7-get7", false, 1, vec![], vec![vec![Get(0, 7)], vec![Get(0, 7)]]);
    add("get8-get7", false, 1, vec![], vec![vec![Get(0, 8)], vec![Get(0, 7)]]);
    add("get7-get6", false, 1, vec![], vec![vec![Get(0, 7)], vec![Get(0, 6)]]);
    // --- huge order vs base order
    add("get9-get0", false, 1, vec![], vec![vec![Get(0, ho)], vec![Get(0, 0)]]);
    add("get9-get9", false, 1, vec![], vec![vec![Get(0, ho)], vec![Get(0, ho)]]);
    // --- get_at of the same frame twice
    add("getat0-getat0", false, 1, vec![], vec![vec![GetAt(5, 0)], vec![GetAt(5, 0)]]);
    add("getat0-getat0-row", false, 1, vec![], vec![vec![GetAt(5, 0)], vec![GetAt(6, 0)]]);
    add("getat3-getat3", false, 1, vec![], vec![vec![GetAt(8, 3)], vec![GetAt(8, 3)]]);
    add("getat5-getat4", false, 1, vec![], vec![vec![GetAt(32, 5)], vec![GetAt(48, 4)]]);
    add("getat7-getat7", false, 1, vec![], vec![vec![GetAt(128, 7)], vec![GetAt(128, 7)]]);
    add("getat7-getat0", false, 1, vec![], vec![vec![GetAt(128, 7)], vec![GetAt(192, 0)]]);
    add("getat9-getat9", false, 1, vec![], vec![vec![GetAt(0, ho)], vec![GetAt(0, ho)]]);
    add("getat9-get0", false, 1, vec![], vec![vec![GetAt(0, ho)], vec![Get(0, 0)]]);
    // --- get vs put in the same row
    add("put0-get0", false, 1, vec![Get(0, 0)], vec![vec![Put(0, 0)], vec![Get(0, 0)]]);
    add("put3-get3", false, 1, vec![GetAt(8, 3), GetAt(0, 3)], vec![vec![Put(8, 3)], vec![Get(0, 3)]]);
    add("put0-put0-row", false, 1, vec![Get(0, 0), Get(0, 0)], vec![vec![Put(0, 0)], vec![Put(1, 0)]]);
    add("put3-put3-row", false, 1, vec![GetAt(8, 3), GetAt(16, 3)], vec![vec![Put(8, 3)], vec![Put(16, 3)]]);
    add("put7-get7", false, 1, vec![Get(0, 7)], vec![vec![Put(0, 7)], vec![Get(0, 7)]]);
    add("put7-get0", false, 1, vec![Get(0, 7)], vec![vec![Put(0, 7)], vec![Get(0, 0)]]);
    // the huge frame is full: a get succeeds only after the put
    add(
        "put0-get0-full",
        false,
        1,
        vec![GetAt(0, ho - 1), GetAt(hf / 2, ho - 1)],
        vec![vec![Put(0, 0)], vec![Get(0, 0)]],
    );
    add("getput-getput", false, 1, vec![], vec![vec![Get(0, 0), PutLast(0)], vec![Get(0, 0), PutLast(0)]]);
    add("getput7-getput7", false, 1, vec![], vec![vec![Get(0, 7), PutLast(7)], vec![Get(0, 7), PutLast(7)]]);
    add("getput3-getput0", false, 1, vec![], vec![vec![Get(0, 3), PutLast(3)], vec![Get(0, 0), PutLast(0)]]);
    // --- puts of two different parts of one held huge block  [D13]
    add("split-put0-put0", true, 1, vec![], vec![vec![Put(5, 0)], vec![Put(6, 0)]]);
    add("split-put7-put7", true, 1, vec![], vec![vec![Put(0, 7)], vec![Put(128, 7)]]);
    add("split-put3-put0", true, 1, vec![], vec![vec![Put(8, 3)], vec![Put(64, 0)]]);
    // the first free releases a whole row, which a stale split attempt of the second one can fill again
    add("split-put6-put0", true, 1, vec![], vec![vec![Put(0, 6)], vec![Put(64, 0)]]);
    add("split-put0-get0", true, 1, vec![], vec![vec![Put(5, 0)], vec![Get(0, 0)]]);
    // --- put order 9 vs get order 9
    add("put9-get9", false, 1, vec![Get(0, ho)], vec![vec![Put(0, ho)], vec![Get(0, ho)]]);
    add("put9-getat9", true, 1, vec![], vec![vec![Put(0, ho)], vec![GetAt(0, ho)]]);
    add("put9-get0", true, 1, vec![], vec![vec![Put(0, ho)], vec![Get(0, 0)]]);
    // --- gets at tree order racing
    add("getT-getT", false, 1, vec![], vec![vec![Get(0, to)], vec![Get(0, to)]]);
    add("getT-getT-2trees", false, 2, vec![], vec![vec![Get(0, to)], vec![Get(tf / 64, to)]]);
    if TREE_HUGE >= 2 {
        // the tree-order get fails on entry 1 and undoes entry 0
        add("getT-get9h1", false, 1, vec![], vec![vec![Get(0, to)], vec![Get(rows_h, ho)]]);
        add("getT-get0h1", false, 1, vec![], vec![vec![Get(0, to)], vec![Get(rows_h, 0)]]);
        add("putT-getT", false, 1, vec![Get(0, to)], vec![vec![Put(0, to)], vec![Get(0, to)]]);
        add("putT-put9t1", false, 2, vec![Get(0, to), Get(tf / 64, ho)], vec![vec![Put(0, to)], vec![Put(tf, ho)]]);
        add("split-put0-put9h1", true, 1, vec![], vec![vec![Put(5, 0)], vec![Put(hf, ho)]]);
        // first huge frame is full: both gets fall through to the second child
        add(
            "get0-get0-child1",
            false,
            1,
            vec![GetAt(0, ho - 1), GetAt(hf / 2, ho - 1)],
            vec![vec![Get(0, 0)], vec![Get(0, 0)]],
        );
    }
    if TREE_HUGE >= 4 {
        add("get10-get10", false, 1, vec![], vec![vec![Get(0, ho + 1)], vec![Get(0, ho + 1)]]);
        add("get10-get9h1", false, 1, vec![], vec![vec![Get(0, ho + 1)], vec![Get(rows_h, ho)]]);
        add("put10-get10", false, 1, vec![Get(0, ho + 1)], vec![vec![Put(0, ho + 1)], vec![Get(0, ho + 1)]]);
    }
    // --- three threads
    add("mix3-get0-get7-get9", false, 1, vec![], vec![vec![Get(0, 0)], vec![Get(0, 7)], vec![Get(0, ho)]]);
    add("mix3-get0-get0-get0", false, 1, vec![], vec![vec![Get(0, 0)], vec![Get(0, 0)], vec![Get(0, 0)]]);
    add(
        "mix3-put0-get0-get1",
        false,
        1,
        vec![Get(0, 0), Get(0, 3)],
        vec![vec![Put(0, 0)], vec![Get(0, 0)], vec![Get(0, 1)]],
    );
    add("mix3-split", true, 1, vec![], vec![vec![Put(5, 0)], vec![Put(64, 6)], vec![Put(6, 0)]]);
    add(
        "mix3-put7-get7-get0",
        false,
        1,
        vec![Get(0, 7)],
        vec![vec![Put(0, 7)], vec![Get(0, 7)], vec![Get(0, 0)]],
    );
    // --- one thread (every schedule is the sequential run) and four threads
    add(
        "one-getput",
        false,
        1,
        vec![],
        vec![vec![Get(0, 0), PutLast(0), Get(0, 3), PutLast(3), Get(0, 7), PutLast(7), Get(0, ho), PutLast(ho), Get(0, to), PutLast(to)]],
    );
    add(
        "mix4-get0-get0-put0-get7",
        false,
        1,
        vec![Get(0, 0)],
        vec![vec![Get(0, 0)], vec![Get(0, 0)], vec![Put(0, 0)], vec![Get(0, 7)]],
    );
    // --- a partial last tree: half a huge frame plus 7 frames behind one whole tree
    let pf = tf + hf / 2 + 7;
    let prow = tf / 64;
    add_frames("partial-get0-get0", false, pf, vec![], vec![vec![Get(prow, 0)], vec![Get(prow, 0)]]);
    add_frames("partial-get6-get7", false, pf, vec![], vec![vec![Get(prow, 6)], vec![Get(prow, 7)]]);
    add_frames("partial-put0-put0", true, pf, vec![], vec![vec![Put(tf + 3, 0)], vec![Put(tf + 4, 0)]]);
    add_frames(
        "partial-getput-lastrow",
        false,
        pf,
        vec![GetAt(tf + hf / 2, 2)],
        vec![vec![Get(prow + hf / 128, 0), PutLast(0)], vec![Put(tf + hf / 2, 2)]],
    );
    if TREE_HUGE >= 2 {
        add(
            "mix3-split-put9-get0",
            true,
            2,
            vec![],
            vec![vec![Put(5, 0)], vec![Put(hf, ho)], vec![Get(0, 0)]],
        );
    }
    v.into_inner()
}

fn parse_call(t: &[&str]) -> CallSpec {
    let n = |i: usize| -> usize { t.get(i).and_then(|s| s.parse().ok()).unwrap_or_else(|| panic!("bad call {t:?}")) };
    match t[0] {
        "get" => CallSpec::Get(n(1), n(2)),
        "getat" => CallSpec::GetAt(n(1), n(2)),
        "put" => CallSpec::Put(n(1), n(2)),
        "putlast" => CallSpec::PutLast(n(1)),
        _ => panic!("bad call {t:?}"),
    }
}

/// scenario file: `NAME x`, `INIT free|alloc`, `FRAMES n` | `TREES n`, `PRE <call>`, `CALL <tid> <call>`
/// (a transcript block works too: RUN/CFG/PRE/CALL lines are understood, the rest is ignored)
fn scenario_from_file(path: &str) -> Scenario {
    let mut s = Scenario { name: "file".into(), alloc_all: false, frames: TREE_FRAMES, pre: vec![], threads: vec![] };
    for line in std::fs::read_to_string(path).expect("scenario file").lines() {
        let t: Vec<&str> = line.split_whitespace().collect();
        if t.is_empty() || t[0].starts_with('#') {
            continue;
        }
        match t[0] {
            "NAME" => s.name = t[1].into(),
            "INIT" => s.alloc_all = t[1] == "alloc",
            "FRAMES" => s.frames = t[1].parse().expect("frames"),
            "TREES" => s.frames = t[1].parse::<usize>().expect("trees") * TREE_FRAMES,
            "RUN" => {
                for kv in &t[1..] {
                    if let Some(n) = kv.strip_prefix("scenario=") {
                        s.name = n.into();
                    }
                }
            }
            "CFG" => {
                for kv in &t[1..] {
                    if let Some(n) = kv.strip_prefix("frames=") {
                        s.frames = n.parse().expect("frames");
                    }
                    if let Some(n) = kv.strip_prefix("init=") {
                        s.alloc_all = n == "alloc";
                    }
                }
            }
            "PRE" => s.pre.push(parse_call(&t[1..4])),
            "CALL" => {
                let tid: usize = t[1].parse().expect("tid");
                while s.threads.len() <= tid {
                    s.threads.push(vec![]);
                }
                s.threads[tid].push(parse_call(&t[2..]));
            }
            _ => {}
        }
    }
    assert!(!s.threads.is_empty() && s.threads.len() <= MAXT, "scenario file: 1..4 threads");
    s
}

// ------------------------------------------------------------------------------------------------
// one execution
// ------------------------------------------------------------------------------------------------
#[derive(Clone, Copy, PartialEq, Eq, Debug)]
enum St {
    Idle,
    /// mid-call; the flag says that the only step so far was the call start
    Running(bool),
    Panicked,
}

struct Env {
    bufs: Bufs,
    snap: Bufs,
    classing: Classing,
    frames: usize,
    snapshots: bool,
}
unsafe impl Sync for Env {}

struct Exec<'a> {
    env: &'a Env,
    scn: &'a Scenario,
    alloc: Box<LLFree<'static>>,
    st: Vec<St>,
    next: Vec<usize>,
    last: Vec<Option<usize>>,
    cur_call: Vec<Option<CallSpec>>,
    /// steps of the call in progress
    call_steps: Vec<usize>,
    held: Vec<(usize, usize)>,
    sched: Vec<u8>,
    cur: Option<usize>,
    nsteps: usize,
    failed_cas: bool,
    hfail: usize,
    panics: usize,
    text: String,
    /// result of the last completed call per thread
    last_res: Vec<Option<Res>>,
}

fn overlap(a: (usize, usize), b: (usize, usize)) -> bool {
    a.0 < b.0 + (1 << b.1) && b.0 < a.0 + (1 << a.1)
}

impl<'a> Exec<'a> {
    fn new(env: &'a Env, scn: &'a Scenario, run: u64, mode: &str) -> Self {
        let n = scn.threads.len();
        env.bufs.zero();
        let init = if scn.alloc_all { Init::AllocAll } else { Init::FreeAll };
        let alloc = Box::new(LLFree::new(scn.frames, init, &env.classing, env.bufs.meta()).expect("LLFree::new"));
        ALLOC.store(&*alloc as *const LLFree as usize, Ordering::Release);
        let mut ex = Exec {
            env,
            scn,
            alloc,
            st: vec![St::Idle; n],
            next: vec![0; n],
            last: vec![None; n],
            cur_call: vec![None; n],
            call_steps: vec![0; n],
            held: Vec::new(),
            sched: Vec::new(),
            cur: None,
            nsteps: 0,
            failed_cas: false,
            hfail: 0,
            panics: 0,
            text: String::with_capacity(4096),
            last_res: vec![None; n],
        };
        let _ = writeln!(ex.text, "RUN {run} scenario={} mode={mode}", scn.name);
        let _ = writeln!(
            ex.text,
            "CFG huge_order={HUGE_ORDER} tree_huge={TREE_HUGE} frames={} init={} threads={n}",
            scn.frames,
            if scn.alloc_all { "alloc" } else { "free" }
        );
        if scn.alloc_all {
            for h in 0..scn.frames / HUGE_FRAMES {
                ex.held.push((h * HUGE_FRAMES, HUGE_ORDER));
            }
            for f in (scn.frames / HUGE_FRAMES) * HUGE_FRAMES..scn.frames {
                ex.held.push((f, 0));
            }
        }
        // sequential prologue on the main thread (hooks see no worker id)
        for &c in &scn.pre {
            if let CallSpec::Put(f, o) = c {
                ex.take_held(f, o);
            }
            let r = exec_caught(&ex.alloc, c);
            let _ = writeln!(ex.text, "PRE {} {}", call_text(c), r.text());
            ex.account(c, &r);
        }
        ex.snapshot();
        ex
    }

    fn hfail(&mut self, t: String) {
        self.hfail += 1;
        let _ = writeln!(self.text, "HFAIL {t}");
    }

    /// the client gives up block (f,o): remove it from the held list, splitting a larger held block
    fn take_held(&mut self, f: usize, o: usize) {
        if let Some(i) = self.held.iter().position(|&(bf, bo)| bo >= o && bf <= f && f + (1 << o) <= bf + (1 << bo)) {
            let (_, bo) = self.held.remove(i);
            let mut k = o;
            while k < bo {
                let sib = ((f >> k) ^ 1) << k;
                self.held.push((sib, k));
                k += 1;
            }
        } else {
            // a block made of several held blocks (the machine's client does not do this)
            let inside: Vec<usize> =
                (0..self.held.len()).filter(|&i| self.held[i].0 >= f && self.held[i].0 + (1 << self.held[i].1) <= f + (1 << o)).collect();
            let total: usize = inside.iter().map(|&i| 1usize << self.held[i].1).sum();
            if total == 1 << o {
                for &i in inside.iter().rev() {
                    self.held.remove(i);
                }
            } else {
                self.hfail(format!("scenario frees a block that is not held: put {f} {o}"));
            }
        }
    }

    /// harness-side oracles on a completed call
    fn account(&mut self, c: CallSpec, r: &Res) {
        match (c, r) {
            (CallSpec::Get(_, o) | CallSpec::GetAt(_, o), Res::Frame(f)) => {
                let b = (*f, o);
                if f % (1 << o) != 0 {
                    self.hfail(format!("misaligned block: {} -> frame {f} order {o}", call_text(c)));
                }
                if f + (1 << o) > self.scn.frames {
                    self.hfail(format!("block out of range: {} -> frame {f} order {o}", call_text(c)));
                }
                if let Some(&(hf, ho)) = self.held.iter().find(|&&h| overlap(h, b)) {
                    self.hfail(format!(
                        "overlap: {} -> frame {f} order {o} overlaps held block frame {hf} order {ho}",
                        call_text(c)
                    ));
                }
                self.held.push(b);
            }
            (CallSpec::Put(f, o), Res::Err(e)) => {
                self.hfail(format!("free of held block returned err {e}: put {f} {o}"));
            }
            (_, Res::Panic(m)) => {
                self.panics += 1;
                if !m.contains("Exceeding retries") {
                    self.hfail(format!("panic {m} in {}", call_text(c)));
                }
            }
            _ => {}
        }
    }

    /// crash here: recover a copy of the lower buffer with fresh volatile state
    fn snapshot(&mut self) {
        if !self.env.snapshots {
            return;
        }
        let env = self.env;
        env.snap.zero();
        unsafe { std::ptr::copy_nonoverlapping(env.bufs.lower, env.snap.lower, env.bufs.lower_len) };
        let frames = self.scn.frames;
        let q = QUIET.with(|t| t.replace(true));
        let r = catch_unwind(AssertUnwindSafe(|| {
            let a = LLFree::new(frames, Init::Recover, &env.classing, env.snap.meta()).expect("recover");
            a.stats()
        }));
        QUIET.with(|t| t.set(q));
        match r {
            Ok(s) => {
                let _ = writeln!(
                    self.text,
                    "SNAP {} {} stats={},{},{}",
                    self.nsteps,
                    dump_state(env.snap.lower, frames),
                    s.free_frames,
                    s.free_huge,
                    s.free_trees
                );
            }
            Err(_) => {
                let m = PANIC_MSG.with(|m| m.borrow().clone());
                let _ = writeln!(self.text, "SNAP {} panic {m}", self.nsteps);
            }
        }
    }

    fn locate(&self, addr: usize) -> Loc {
        let b = &self.env.bufs;
        let lo = b.lower as usize;
        if addr >= lo && addr < lo + b.lower_len {
            let off = addr - lo;
            let bsz = nbf(self.env.frames) * BF_SIZE;
            if off < bsz {
                let w = off % BF_SIZE;
                if w < HUGE_FRAMES / 8 {
                    return Loc::Row { h: off / BF_SIZE, r: w / 8, bit: (w % 8) * 8 };
                }
            } else {
                let t = (off - bsz) / TAB_SIZE;
                let w = (off - bsz) % TAB_SIZE;
                if w < 2 * TREE_HUGE && w % 2 == 0 {
                    return Loc::Ent { h: t * TREE_HUGE + w / 2 };
                }
            }
            return Loc::Other("lowerpad", off);
        }
        let t = b.trees as usize;
        if addr >= t && addr < t + b.trees_len {
            return Loc::Other("trees", addr - t);
        }
        let l = b.local as usize;
        if addr >= l && addr < l + b.local_len {
            return Loc::Other("local", addr - l);
        }
        Loc::Other("other", addr)
    }

    /// the next call of thread t (unresolvable `putlast`s are dropped)
    fn next_call(&mut self, t: usize) -> Option<CallSpec> {
        loop {
            let c = *self.scn.threads[t].get(self.next[t])?;
            match c {
                CallSpec::PutLast(o) => match self.last[t] {
                    Some(f) => return Some(CallSpec::Put(f, o)),
                    None => self.next[t] += 1,
                },
                c => return Some(c),
            }
        }
    }

    fn enabled(&mut self, t: usize) -> bool {
        match self.st[t] {
            St::Running(_) => true,
            St::Panicked => false,
            St::Idle => self.next_call(t).is_some(),
        }
    }
    fn midcall(&self, t: usize) -> bool {
        matches!(self.st[t], St::Running(_))
    }
    fn any_enabled(&mut self) -> bool {
        (0..self.st.len()).any(|t| self.enabled(t))
    }
    fn enabled_list(&mut self) -> Vec<usize> {
        (0..self.st.len()).filter(|&t| self.enabled(t)).collect()
    }

    /// thread t (enabled) makes the next step: an idle thread is given its next call
    fn prepare(&mut self, t: usize) {
        if self.st[t] == St::Idle {
            let c = self.next_call(t).expect("step of a finished thread");
            self.next[t] += 1;
            if matches!(self.scn.threads[t][self.next[t] - 1], CallSpec::PutLast(_)) {
                self.last[t] = None;
            }
            NEXT_CALL.lock().unwrap()[t] = Some(c);
            // the call counts as started from here on (its CALL line follows with the next events)
            self.st[t] = St::Running(true);
        }
        self.sched.push(t as u8);
        self.cur = Some(t);
    }

    /// record what the step that just ended did
    fn absorb(&mut self) {
        let evs: Vec<Ev> = std::mem::take(&mut *EVENTS.lock().unwrap());
        let mut wrote = false;
        for ev in evs {
            match ev {
                Ev::Call(tid, c) => {
                    let _ = writeln!(self.text, "CALL {tid} {}", call_text(c));
                    if let CallSpec::Put(f, o) = c {
                        self.take_held(f, o);
                    }
                    self.st[tid] = St::Running(true);
                    self.cur_call[tid] = Some(c);
                    self.call_steps[tid] = 0;
                }
                Ev::Step { tid, kind, addr, width, pre, val, newv, ok } => {
                    self.nsteps += 1;
                    self.call_steps[tid] += 1;
                    self.st[tid] = St::Running(false);
                    let (kn, found, new, writes) = match kind {
                        Kind::Load => ("load", val, None, false),
                        Kind::Cas => ("cas", val, if ok { Some(newv) } else { None }, ok),
                        Kind::Store => ("store", pre, Some(newv), true),
                        Kind::Swap => ("swap", val, Some(newv), true),
                        Kind::Rmw => ("rmw", val, Some(newv), true),
                    };
                    if kind == Kind::Cas && !ok {
                        self.failed_cas = true;
                    }
                    let new = match new {
                        Some(v) => format!("{v:x}"),
                        None => "-".into(),
                    };
                    let okn = ok as u8;
                    match self.locate(addr) {
                        Loc::Row { h, r, bit } => {
                            let _ = writeln!(self.text, "S {tid} {kn} row {h} {r} {bit} {} {found:x} {new} {okn}", width * 8);
                            wrote |= writes;
                        }
                        Loc::Ent { h } => {
                            let _ = writeln!(self.text, "S {tid} {kn} ent {h} 0 0 {} {found:x} {new} {okn}", width * 8);
                            wrote |= writes;
                        }
                        Loc::Other(b, off) => {
                            let _ = writeln!(self.text, "X {tid} {kn} {b} {off} {} {found:x} {new} {okn}", width * 8);
                        }
                    }
                }
                Ev::Ret(tid, r) => {
                    let _ = writeln!(self.text, "RET {tid} {}", r.text());
                    let c = self.cur_call[tid].take().expect("ret without call");
                    self.st[tid] = if matches!(r, Res::Panic(_)) { St::Panicked } else { St::Idle };
                    if let (CallSpec::Get(..) | CallSpec::GetAt(..), Res::Frame(f)) = (c, &r) {
                        self.last[tid] = Some(*f);
                    }
                    self.account(c, &r);
                    self.last_res[tid] = Some(r);
                }
            }
        }
        if wrote {
            self.snapshot();
        }
    }

    fn finish(mut self) -> Done {
        let sched: Vec<String> = self.sched.iter().map(|t| t.to_string()).collect();
        let _ = writeln!(self.text, "SCHED {}", sched.join(","));
        let _ = writeln!(self.text, "END {}", dump_state(self.env.bufs.lower, self.scn.frames));
        Done { text: self.text, sched: self.sched, nsteps: self.nsteps, hfail: self.hfail, panics: self.panics }
    }
}

struct Done {
    text: String,
    sched: Vec<u8>,
    nsteps: usize,
    hfail: usize,
    panics: usize,
}

// ------------------------------------------------------------------------------------------------
// schedule sources
// ------------------------------------------------------------------------------------------------
#[derive(Default)]
struct Totals {
    runs: u64,
    emitted: u64,
    dups: u64,
    steps: u64,
    hfail: u64,
    panics: u64,
    maxsteps: usize,
}

struct Sink<'a> {
    w: &'a mut dyn Write,
    seen: HashSet<u64>,
    tot: Totals,
}

fn sched_hash(name: &str, s: &[u8]) -> u64 {
    let mut h = 0xcbf2_9ce4_8422_2325u64;
    for b in name.bytes().chain([0xff]).chain(s.iter().copied()) {
        h ^= b as u64;
        h = h.wrapping_mul(0x100_0000_01b3);
    }
    h
}

impl Sink<'_> {
    fn emit(&mut self, scn: &Scenario, d: Done, dedup: bool) {
        self.tot.runs += 1;
        if dedup && !self.seen.insert(sched_hash(&scn.name, &d.sched)) {
            self.tot.dups += 1;
            return;
        }
        self.tot.emitted += 1;
        self.tot.steps += d.nsteps as u64;
        self.tot.hfail += d.hfail as u64;
        self.tot.panics += d.panics as u64;
        self.tot.maxsteps = self.tot.maxsteps.max(d.sched.len());
        self.w.write_all(d.text.as_bytes()).unwrap();
    }
}

/// round-robin: every enabled thread one step in turn
struct RoundRobin {
    t: usize,
}
impl RoundRobin {
    fn pick(&mut self, ex: &mut Exec) -> Option<usize> {
        let n = ex.st.len();
        if !ex.any_enabled() {
            return None;
        }
        loop {
            let t = self.t % n;
            self.t += 1;
            if ex.enabled(t) {
                return Some(t);
            }
        }
    }
}

/// replay: entries naming a thread that cannot move are skipped; then round-robin
struct Replay {
    sched: Vec<usize>,
    pos: usize,
    rr: RoundRobin,
}
impl Replay {
    fn new(sched: &[usize]) -> Self {
        Replay { sched: sched.to_vec(), pos: 0, rr: RoundRobin { t: 0 } }
    }
}
impl Chooser for Replay {
    fn next(&mut self, ex: &mut Exec) -> Option<usize> {
        while self.pos < self.sched.len() {
            let t = self.sched[self.pos];
            self.pos += 1;
            if t < ex.st.len() && ex.enabled(t) {
                return Some(t);
            }
        }
        self.rr.pick(ex)
    }
}

fn run_replay(env: &'static Env, scn: &'static Scenario, sched: &[usize], run: u64, mode: &str) -> Done {
    drive(Exec::new(env, scn, run, mode), Box::new(Replay::new(sched)))
}

/// Preemption-bounded DFS over the schedules of a scenario.  A preemption is a switch away from a
/// thread that is in the middle of a call; switches at call boundaries are free.  A call start is
/// immediately followed by the first access of the same thread (the call start touches no memory,
/// so every schedule is equivalent to one of this shape).
struct Node {
    choices: Vec<u8>,
    idx: usize,
}
const SHARD_DEPTH: usize = 3;
#[derive(Default)]
struct Dfs {
    stack: Vec<Node>,
    bound: usize,
    shard: (u64, u64),
    // per run
    depth: usize,
    preempts: usize,
    branch: Vec<u8>,
    pruned: bool,
}
struct DfsChooser(Arc<Mutex<Dfs>>);
impl Chooser for DfsChooser {
    fn next(&mut self, ex: &mut Exec) -> Option<usize> {
        let mut g = self.0.lock().unwrap();
        let d = &mut *g;
        if !ex.any_enabled() {
            return None;
        }
        let t;
        if d.depth < d.stack.len() {
            let n = &d.stack[d.depth];
            t = n.choices[n.idx] as usize;
            if n.choices.len() > 1 && d.branch.len() < SHARD_DEPTH {
                d.branch.push(n.idx as u8);
            }
        } else {
            let en = ex.enabled_list();
            let mut ch: Vec<u8> = Vec::new();
            match ex.cur {
                Some(c) if ex.st[c] == St::Running(true) => ch.push(c as u8),
                Some(c) if ex.midcall(c) => {
                    ch.push(c as u8);
                    if d.preempts < d.bound && !d.pruned {
                        ch.extend(en.iter().filter(|&&x| x != c).map(|&x| x as u8));
                    }
                }
                _ => {
                    if d.pruned {
                        ch.push(en[0] as u8);
                    } else {
                        ch.extend(en.iter().map(|&x| x as u8));
                    }
                }
            }
            t = ch[0] as usize;
            if ch.len() > 1 && d.branch.len() < SHARD_DEPTH {
                d.branch.push(0);
            }
            d.stack.push(Node { choices: ch, idx: 0 });
        }
        if d.branch.len() == SHARD_DEPTH && !d.pruned && d.shard.1 > 1 && sched_hash("", &d.branch) % d.shard.1 != d.shard.0 {
            d.pruned = true; // another shard owns this subtree: finish the run, explore nothing below
        }
        if let Some(c) = ex.cur {
            if t != c && ex.midcall(c) {
                d.preempts += 1;
            }
        }
        d.depth += 1;
        Some(t)
    }
}

fn run_exhaustive(env: &'static Env, scn: &'static Scenario, bound: usize, shard: (u64, u64), max_runs: u64, sink: &mut Sink, run0: &mut u64) {
    let dfs = Arc::new(Mutex::new(Dfs { bound, shard, ..Default::default() }));
    let mut count = 0u64;
    loop {
        {
            let mut d = dfs.lock().unwrap();
            d.depth = 0;
            d.preempts = 0;
            d.branch.clear();
            d.pruned = false;
        }
        let done = drive(Exec::new(env, scn, *run0, "exhaustive"), Box::new(DfsChooser(dfs.clone())));
        let mut d = dfs.lock().unwrap();
        let mine = if d.branch.len() == SHARD_DEPTH { !d.pruned } else { shard.1 <= 1 || sched_hash("", &d.branch) % shard.1 == shard.0 };
        if mine {
            sink.emit(scn, done, false);
            *run0 += 1;
            count += 1;
        }
        // backtrack
        loop {
            match d.stack.last_mut() {
                None => break,
                Some(n) if n.idx + 1 < n.choices.len() => {
                    n.idx += 1;
                    break;
                }
                Some(_) => {
                    d.stack.pop();
                }
            }
        }
        if d.stack.is_empty() || count >= max_runs {
            break;
        }
    }
}

/// PCT (Burckhardt et al.): random thread priorities, `depth - 1` priority change points
struct Pct {
    prio: Vec<usize>,
    change: Vec<usize>,
    depth: usize,
    s: usize,
}
impl Pct {
    fn new(n: usize, rng: &mut Rng, depth: usize, klen: usize) -> Self {
        let mut prio: Vec<usize> = (0..n).map(|i| depth + i).collect();
        for i in (1..n).rev() {
            let j = rng.below(i as u64 + 1) as usize;
            prio.swap(i, j);
        }
        let mut change: Vec<usize> = (0..depth.saturating_sub(1)).map(|_| rng.below(klen.max(1) as u64) as usize).collect();
        change.sort();
        Pct { prio, change, depth, s: 0 }
    }
}
impl Chooser for Pct {
    fn next(&mut self, ex: &mut Exec) -> Option<usize> {
        let en = ex.enabled_list();
        if en.is_empty() {
            return None;
        }
        let mut best = *en.iter().max_by_key(|&&t| self.prio[t]).unwrap();
        for i in 0..self.change.len() {
            if self.change[i] == self.s {
                self.prio[best] = self.depth - 1 - i.min(self.depth - 1);
                best = *en.iter().max_by_key(|&&t| self.prio[t]).unwrap();
            }
        }
        self.s += 1;
        Some(best)
    }
}

fn default_budget() -> usize {
    2 * TREE_HUGE * (4 + 3 * ROWS) + 16
}

/// the base run of freeze mode: remembers who is in the middle of a call after every step
struct FreezeBase {
    inner: Replay,
    mid: Arc<Mutex<Vec<Vec<usize>>>>,
}
impl Chooser for FreezeBase {
    fn next(&mut self, ex: &mut Exec) -> Option<usize> {
        if !ex.sched.is_empty() {
            let m: Vec<usize> = (0..ex.st.len()).filter(|&x| ex.midcall(x)).collect();
            self.mid.lock().unwrap().push(m);
        }
        self.inner.next(ex)
    }
}

/// freeze mode: replay k steps of the base schedule, then thread t alone until its call returns
struct Freeze {
    prefix: Vec<usize>,
    pos: usize,
    t: usize,
    phase: u8,
    solo: usize,
    before: usize,
    budget: usize,
    rr: RoundRobin,
}
impl Chooser for Freeze {
    fn next(&mut self, ex: &mut Exec) -> Option<usize> {
        if self.phase == 0 {
            if self.pos < self.prefix.len() {
                self.pos += 1;
                return Some(self.prefix[self.pos - 1]);
            }
            self.phase = 1;
            self.before = ex.call_steps[self.t];
        }
        let (t, k) = (self.t, self.prefix.len());
        if self.phase == 1 {
            if ex.midcall(t) {
                self.solo += 1;
                if self.solo == self.budget + 1 {
                    ex.hfail(format!("solo budget: thread {t} frozen at step {k} exceeds {} steps", self.budget));
                }
                if self.solo > 100 * self.budget + 1000 {
                    eprintln!("{}HFAIL solo stuck: thread {t} frozen at step {k} does not finish", ex.text);
                    eprintln!("schedrun: solo run does not terminate, giving up");
                    std::process::exit(3);
                }
                return Some(t);
            }
            let res = ex.last_res[t].clone().map(|r| r.text()).unwrap_or_else(|| "none".into());
            let _ = writeln!(
                ex.text,
                "SOLO {t} steps={} before={} frozen_at={k} budget={} result={res}",
                self.solo, self.before, self.budget
            );
            self.phase = 2;
        }
        self.rr.pick(ex)
    }
}

#[allow(clippy::too_many_arguments)]
fn run_freeze(env: &'static Env, scn: &'static Scenario, base: &[usize], budget: usize, sample: usize, rng: &mut Rng, sink: &mut Sink, run0: &mut u64) {
    let mid = Arc::new(Mutex::new(Vec::new()));
    let done = drive(
        Exec::new(env, scn, *run0, "freeze-base"),
        Box::new(FreezeBase { inner: Replay::new(base), mid: mid.clone() }),
    );
    let actual: Vec<usize> = done.sched.iter().map(|&t| t as usize).collect();
    sink.emit(scn, done, true);
    *run0 += 1;
    let mid = mid.lock().unwrap().clone();
    let mut points: Vec<(usize, usize)> = Vec::new();
    for (k, m) in mid.iter().enumerate() {
        for &t in m {
            points.push((k + 1, t));
        }
    }
    if sample > 0 && points.len() > sample {
        for i in 0..sample {
            let j = i + rng.below((points.len() - i) as u64) as usize;
            points.swap(i, j);
        }
        points.truncate(sample);
        points.sort();
    }
    for (k, t) in points {
        let ch = Freeze { prefix: actual[..k].to_vec(), pos: 0, t, phase: 0, solo: 0, before: 0, budget, rr: RoundRobin { t: 0 } };
        let done = drive(Exec::new(env, scn, *run0, "freeze"), Box::new(ch));
        sink.emit(scn, done, false);
        *run0 += 1;
    }
}

// ------------------------------------------------------------------------------------------------
// startup checks of the layout assumptions
// ------------------------------------------------------------------------------------------------
fn check_layout(env: &Env) {
    let frames = env.frames;
    let m = LLFree::metadata_size(&env.classing, frames);
    assert_eq!(m.lower, nbf(frames) * BF_SIZE + ntab(frames) * TAB_SIZE, "lower metadata size");
    assert_eq!(env.bufs.lower as usize % 64, 0);
    env.bufs.zero();
    let a = LLFree::new(frames, Init::FreeAll, &env.classing, env.bufs.meta()).expect("new");
    let lo = env.bufs.lower as usize;
    let tbase = lo + nbf(frames) * BF_SIZE;
    let ent = |h: usize| read_mem(tbase + (h / TREE_HUGE) * TAB_SIZE + 2 * (h % TREE_HUGE), 2);
    let row = |h: usize, r: usize| read_mem(lo + h * BF_SIZE + 8 * r, 8);
    for h in 0..nbf(frames) {
        assert_eq!(ent(h) as usize, HUGE_FRAMES.min(frames - h * HUGE_FRAMES), "free entry {h}");
    }
    // single frames: bit (f % 64) of row (f / 64) % ROWS of bitfield f / HUGE_FRAMES; counter of entry f / HUGE_FRAMES
    let mut probes = vec![0usize, 1, 63, 64, 65, HUGE_FRAMES - 1, frames - 1];
    if frames > HUGE_FRAMES {
        probes.push(HUGE_FRAMES + 70);
    }
    probes.sort();
    probes.dedup();
    for &f in &probes {
        let h = f / HUGE_FRAMES;
        let (e0, r0) = (ent(h), row(h, (f / 64) % ROWS));
        assert_eq!(lower_get(&a, f / 64, 0, Some(f)), Ok(f));
        assert_eq!(ent(h), e0 - 1, "entry of frame {f}");
        assert_eq!(row(h, (f / 64) % ROWS), r0 | 1 << (f % 64), "bit of frame {f}");
        assert_eq!(lower_put(&a, f, 0), Ok(()));
        assert_eq!((ent(h), row(h, (f / 64) % ROWS)), (e0, r0));
    }
    // narrow lanes are little endian within the row
    assert_eq!(lower_get(&a, 0, 3, Some(72)), Ok(72));
    assert_eq!(read_mem(lo + 8 + 1, 1), 0xff, "byte lane of frame 72");
    assert_eq!(row(0, 1), 0xff00);
    assert_eq!(lower_put(&a, 72, 3), Ok(()));
    // huge entries
    for h in 0..frames / HUGE_FRAMES {
        assert_eq!(lower_get(&a, h * ROWS, HUGE_ORDER, Some(h * HUGE_FRAMES)), Ok(h * HUGE_FRAMES));
        assert_eq!(ent(h), 0xffff, "marker of huge frame {h}");
        assert_eq!(lower_put(&a, h * HUGE_FRAMES, HUGE_ORDER), Ok(()));
        assert_eq!(ent(h) as usize, HUGE_FRAMES);
    }
    // padding behind the entries stays zero
    for t in 0..ntab(frames) {
        for b in (2 * TREE_HUGE..TAB_SIZE).step_by(2) {
            assert_eq!(read_mem(tbase + t * TAB_SIZE + b, 2), 0, "table padding");
        }
    }
    drop(a);
}

fn parse_sched(s: &str) -> Vec<usize> {
    s.split(',').map(|x| x.trim()).filter(|x| !x.is_empty() && *x != "-").map(|x| x.parse().expect("--schedule t,t,..")).collect()
}

fn usage() -> ! {
    eprintln!(
        "usage: schedrun --mode exhaustive|pct|replay|freeze --scenario <name,name,..|all> [--scenario-file f]\n\
         \x20  [--preemptions P] [--runs N] [--depth d] [--seed s] [--schedule 0,1,0,..] [--budget B] [--sample m]\n\
         \x20  [--snapshots] [--shard i/n] [--max-runs M] [--spin n] [--out file] [--list] [--verbose]"
    );
    std::process::exit(2)
}

fn main() {
    let args = Args::parse();
    let all = builtin();
    if args.flag("list") {
        for s in &all {
            println!("{} threads={} init={} frames={}", s.name, s.threads.len(), if s.alloc_all { "alloc" } else { "free" }, s.frames);
        }
        return;
    }
    let mode = args.get("mode").unwrap_or_else(|| usage()).to_string();
    let seed = args.num("seed", 1);
    let mut scns: Vec<Scenario> = Vec::new();
    if let Some(f) = args.get("scenario-file") {
        scns.push(scenario_from_file(f));
    }
    match args.get("scenario") {
        Some("all") => scns.extend(all.iter().cloned()),
        Some(list) => {
            for n in list.split(',') {
                match all.iter().find(|s| s.name == n) {
                    Some(s) => scns.push(s.clone()),
                    None => {
                        eprintln!("schedrun: unknown scenario {n} (geometry tree_huge={TREE_HUGE})");
                        std::process::exit(2);
                    }
                }
            }
        }
        None => {}
    }
    if scns.is_empty() {
        usage();
    }
    let scns: &'static [Scenario] = Box::leak(scns.into_boxed_slice());
    let shard: (u64, u64) = match args.get("shard") {
        Some(s) => {
            let (a, b) = s.split_once('/').expect("--shard i/n");
            (a.parse().expect("shard"), b.parse().expect("shard"))
        }
        None => (0, 1),
    };
    SPIN.store(args.num("spin", 100) as usize, Ordering::Relaxed);

    // panics of the code under test: remember "<file>:<line> <message>" for the catching thread
    std::panic::set_hook(Box::new(|info| {
        let loc = info.location().map(|l| format!("{}:{}", l.file().rsplit('/').next().unwrap_or("?"), l.line())).unwrap_or_else(|| "?:0".into());
        let msg = if let Some(s) = info.payload().downcast_ref::<&str>() {
            s.to_string()
        } else if let Some(s) = info.payload().downcast_ref::<String>() {
            s.clone()
        } else {
            "?".into()
        };
        let msg = msg.replace(['\n', '\r'], " ");
        let text = format!("{loc} {msg}");
        if !QUIET.with(|t| t.get()) {
            eprintln!("schedrun: panic {text}");
        }
        PANIC_MSG.with(|m| *m.borrow_mut() = text);
    }));

    let me = std::thread::current();
    MAIN_T.with(|m| *m.borrow_mut() = Some(me.clone()));
    let mut threads = Vec::new();
    for tid in 0..MAXT {
        let m = me.clone();
        let h = std::thread::Builder::new().name(format!("w{tid}")).spawn(move || worker(tid, m)).expect("spawn");
        threads.push(h.thread().clone());
    }
    *THREADS.lock().unwrap() = threads;
    set_hooks(Some((hook_before, hook_after)));

    let mut w = out(args.get("out"));
    let mut sink = Sink { w: &mut *w, seen: HashSet::new(), tot: Totals::default() };
    let mut run = 0u64;
    let t0 = std::time::Instant::now();
    let snapshots = args.flag("snapshots");
    let mut per: Vec<(String, u64)> = Vec::new();

    // one environment per buffer size (scenarios use 1-2 trees)
    let mut sizes: Vec<usize> = scns.iter().map(|s| s.frames).collect();
    sizes.sort();
    sizes.dedup();
    for frames in sizes {
        let classing = Classing::simple(1).0;
        let env: &'static Env = Box::leak(Box::new(Env {
            bufs: Bufs::new(frames, &classing),
            snap: Bufs::new(frames, &classing),
            classing,
            frames,
            snapshots,
        }));
        check_layout(env);
        for scn in scns.iter().filter(|s| s.frames == frames) {
            let before = sink.tot.emitted;
            match mode.as_str() {
                "exhaustive" => {
                    let p = args.num("preemptions", 2) as usize;
                    run_exhaustive(env, scn, p, shard, args.num("max-runs", u64::MAX), &mut sink, &mut run);
                }
                "pct" => {
                    let runs = args.num("runs", 100);
                    let depth = args.num("depth", 3) as usize;
                    // length estimate: the round-robin run
                    let klen = run_replay(env, scn, &[], 0, "probe").sched.len();
                    for r in 0..runs {
                        if r % shard.1 != shard.0 {
                            continue;
                        }
                        let mut rng = Rng::new(seed ^ sched_hash(&scn.name, &[]).rotate_left(17) ^ r.wrapping_mul(0x9e37_79b9_7f4a_7c15));
                        let d = 1 + rng.below(depth.max(1) as u64) as usize;
                        let ch = Pct::new(scn.threads.len(), &mut rng, d, klen + klen / 2);
                        let done = drive(Exec::new(env, scn, run, "pct"), Box::new(ch));
                        sink.emit(scn, done, true);
                        run += 1;
                    }
                }
                "replay" => {
                    let sched = parse_sched(args.get("schedule").unwrap_or(""));
                    let d = run_replay(env, scn, &sched, run, "replay");
                    sink.emit(scn, d, false);
                    run += 1;
                }
                "freeze" => {
                    let budget = args.num("budget", default_budget() as u64) as usize;
                    let sample = args.num("sample", 0) as usize;
                    let mut rng = Rng::new(seed ^ sched_hash(&scn.name, &[]) ^ 0x5eed);
                    let mut bases: Vec<Vec<usize>> = Vec::new();
                    if let Some(s) = args.get("schedule") {
                        bases.push(parse_sched(s));
                    } else {
                        bases.push(vec![]); // round-robin
                        let klen = run_replay(env, scn, &[], 0, "probe").sched.len();
                        for _ in 0..args.num("runs", 4) {
                            let d = 1 + rng.below(3) as usize;
                            let ch = Pct::new(scn.threads.len(), &mut rng, d, klen + klen / 2);
                            let done = drive(Exec::new(env, scn, 0, "probe"), Box::new(ch));
                            bases.push(done.sched.iter().map(|&t| t as usize).collect());
                        }
                        bases.sort();
                        bases.dedup();
                    }
                    for (bi, b) in bases.iter().enumerate() {
                        if bi as u64 % shard.1 != shard.0 {
                            continue;
                        }
                        run_freeze(env, scn, b, budget, sample, &mut rng, &mut sink, &mut run);
                    }
                }
                _ => usage(),
            }
            per.push((scn.name.clone(), sink.tot.emitted - before));
        }
    }
    let tot = sink.tot;
    w.flush().unwrap();
    let dt = t0.elapsed().as_secs_f64();
    eprintln!(
        "schedrun: mode={mode} runs={} emitted={} dups={} steps={} maxlen={} hfail={} panics={} time={:.2}s steps/s={:.0}",
        tot.runs,
        tot.emitted,
        tot.dups,
        tot.steps,
        tot.maxsteps,
        tot.hfail,
        tot.panics,
        dt,
        tot.steps as f64 / dt.max(1e-9)
    );
    if args.flag("verbose") {
        for (n, c) in per {
            eprintln!("  {n}: {c}");
        }
    }
    // workers are parked inside their loops: leave without joining
    std::process::exit(0);
}

thread_local! {
    /// expected panics (code under test, snapshots of a crashing recover) are not echoed
    static QUIET: Cell<bool> = const { Cell::new(false) };
}
