//! C17 / C08 (metadata half) / C18 (bounds): metadata layout, `MetaData::valid`, zone and persistent wrappers.
//!
//! Transcript (one line per observation; numbers that can exceed 2^62 are hex, the rest decimal):
//!   G <HUGE_ORDER> <log2 TREE_HUGE> <FRAME_SIZE>
//! meta suite
//!   MS <frames> <classing> <local> <trees> <lower>            `LLFree::metadata_size`
//!   MN <frames> <classing> <init> <result>                     `LLFree::new` on exact-size buffers
//!   MA <frames> <classing> <L|T|W> <offset> <width>            distinct atomic access seen by the hooks
//!   MO <frames> <classing> <result>                            the probe operations ran / panicked
//! valid suite
//!   V <frames> <classing> <laddr> <llen> <taddr> <tlen> <waddr> <wlen> <tag> | <result>
//! zone suite
//!   ZC <id> <offset hex> <frames> <result>                     `ZoneAlloc::create`
//!   Z <id> <offset hex> <frames> <op ...> | zone=<res> twin=<res> zs=<stats> ts=<stats>
//! nvm suite
//!   NC <id> <base hex> <z> <recover> <hdr magic hex> <hdr frames hex> | <result> [<managed> <offset hex> <lower addr hex> <lower len>]
//!   NG <id> <frame hex> <order>                                frame returned by `NvmAlloc::get`
//!   NS <id> <managed> <held frames> <free before> <huge before> <free after recover> <huge after> <free after frees>
//! HFAIL <text>   harness-side oracle failure
//! classing = `id:count,id:count` or `-`; result = `ok ...` | `err mem|arg|init` | `panic <file:line msg>`
use std::alloc::{Layout, alloc_zeroed, dealloc};
use std::cell::RefCell;
use std::collections::BTreeSet;
use std::io::Write;
use std::panic::{AssertUnwindSafe, catch_unwind};

use llfree::frame::Frame;
use llfree::verif::{Kind, set_hooks};
use llfree::wrapper::{NvmAlloc, ZoneAlloc};
use llfree::{
    Alloc, Class, Classing, Error, FRAME_SIZE, FrameId, HUGE_ORDER, Init, LLFree, MetaData, Policy,
    Request, Stats, TREE_FRAMES, TREE_HUGE, TREE_ORDER,
};
use llfree_verif_harness::{Args, Rng, out};

// ------------------------------------------------------------------------------------------ panics
thread_local! {
    static LAST_PANIC: RefCell<Option<String>> = const { RefCell::new(None) };
    static ACCESSES: RefCell<Vec<(usize, usize)>> = const { RefCell::new(Vec::new()) };
}

fn install_hook() {
    std::panic::set_hook(Box::new(|info| {
        let loc = info
            .location()
            .map(|l| {
                let f = l.file();
                let base = f.rsplit('/').next().unwrap_or(f);
                format!("{}:{}", base, l.line())
            })
            .unwrap_or_else(|| "?:0".into());
        let msg = if let Some(s) = info.payload().downcast_ref::<&str>() {
            (*s).to_string()
        } else if let Some(s) = info.payload().downcast_ref::<String>() {
            s.clone()
        } else {
            "?".to_string()
        };
        let msg: String = msg.chars().map(|c| if c.is_control() || c == '|' { ' ' } else { c }).collect();
        let msg: String = msg.chars().take(120).collect();
        LAST_PANIC.with(|l| *l.borrow_mut() = Some(format!("{loc} {msg}")));
    }));
}

/// Run `f`; a panic becomes `Err("<file>:<line> <message>")`
fn guarded<T>(f: impl FnOnce() -> T) -> Result<T, String> {
    LAST_PANIC.with(|l| *l.borrow_mut() = None);
    match catch_unwind(AssertUnwindSafe(f)) {
        Ok(v) => Ok(v),
        Err(_) => Err(LAST_PANIC.with(|l| l.borrow_mut().take()).unwrap_or_else(|| "?:0 unknown".into())),
    }
}

fn errname(e: Error) -> &'static str {
    match e {
        Error::Memory => "err mem",
        Error::Argument => "err arg",
        Error::Initialization => "err init",
    }
}

// ------------------------------------------------------------------------------------------ hooks
fn hook_before(_k: Kind, addr: usize, width: usize) {
    ACCESSES.with(|a| a.borrow_mut().push((addr, width)));
}
fn hook_after(_k: Kind, _addr: usize, _width: usize, _v: u64, _ok: bool) {}

// ------------------------------------------------------------------------------------------ buffers
const GUARD: usize = 128;
const GUARD_BYTE: u8 = 0xc5;

/// A 64-byte aligned buffer of exactly `size` usable bytes with a guard region before and after it.
struct Buf {
    raw: *mut u8,
    size: usize,
}
impl Buf {
    fn new(size: usize) -> Self {
        let layout = Layout::from_size_align(size + 2 * GUARD, 64).unwrap();
        let raw = unsafe { alloc_zeroed(layout) };
        assert!(!raw.is_null());
        unsafe {
            std::ptr::write_bytes(raw, GUARD_BYTE, GUARD);
            std::ptr::write_bytes(raw.add(GUARD + size), GUARD_BYTE, GUARD);
        }
        Buf { raw, size }
    }
    fn ptr(&self) -> *mut u8 {
        unsafe { self.raw.add(GUARD) }
    }
    fn addr(&self) -> usize {
        self.ptr() as usize
    }
    fn slice(&self) -> &'static mut [u8] {
        unsafe { std::slice::from_raw_parts_mut(self.ptr(), self.size) }
    }
    fn zero(&self) {
        unsafe { std::ptr::write_bytes(self.ptr(), 0, self.size) };
    }
    fn guards_ok(&self) -> bool {
        unsafe {
            (0..GUARD).all(|i| self.raw.add(i).read_volatile() == GUARD_BYTE)
                && (0..GUARD).all(|i| self.raw.add(GUARD + self.size + i).read_volatile() == GUARD_BYTE)
        }
    }
}
impl Drop for Buf {
    fn drop(&mut self) {
        let layout = Layout::from_size_align(self.size + 2 * GUARD, 64).unwrap();
        unsafe { dealloc(self.raw, layout) };
    }
}

// ------------------------------------------------------------------------------------------ classing
fn policy(requested: Class, target: Class, free: usize) -> Policy {
    if requested.0 > target.0 {
        return Policy::Steal;
    } else if requested.0 < target.0 {
        return Policy::Demote;
    }
    match free {
        f if f >= TREE_FRAMES / 2 => Policy::Match(1),
        f if f >= TREE_FRAMES / 64 => Policy::Match(u8::MAX),
        _ => Policy::Match(0),
    }
}

type Cl = Vec<(u8, usize)>;

fn cl_name(cl: &Cl) -> String {
    if cl.is_empty() {
        "-".into()
    } else {
        cl.iter().map(|(c, n)| format!("{c}:{n}")).collect::<Vec<_>>().join(",")
    }
}
fn mk_classing(cl: &Cl) -> Classing {
    let v: Vec<(Class, usize)> = cl.iter().map(|&(c, n)| (Class(c), n)).collect();
    // default: the last configured class (like `simple`/`movable`), class 0 for an empty list
    let default = cl.last().map(|&(c, _)| Class(c)).unwrap_or(Class(0));
    Classing::new(&v, default, policy)
}

fn parse_cl(s: &str) -> Cl {
    if s == "-" {
        return vec![];
    }
    s.split(',')
        .map(|e| {
            let (c, n) = e.split_once(':').expect("classing id:count");
            (c.parse().expect("class id"), n.parse().expect("slot count"))
        })
        .collect()
}

/// Directed re-run of one configuration (`--only-frames n [--only-cl c] [--only-offset hex] [--only-z z]`)
#[derive(Default, Clone)]
struct Only {
    frames: Option<usize>,
    cl: Option<Cl>,
    offset: Option<usize>,
    z: Option<usize>,
}

fn stats_str(s: &Stats) -> String {
    format!("{},{},{}", s.free_frames, s.free_huge, s.free_trees)
}

// ------------------------------------------------------------------------------------------ meta suite
fn frame_counts(rng: &mut Rng, random: usize) -> Vec<usize> {
    let mut v: BTreeSet<usize> = BTreeSet::new();
    for b in [0usize, 1, 2, 63, 64, 65] {
        v.insert(b);
    }
    let hf = 1usize << HUGE_ORDER;
    for base in [hf, 2 * hf, TREE_FRAMES, 2 * TREE_FRAMES, 3 * TREE_FRAMES, 8 * TREE_FRAMES, 16 * TREE_FRAMES, 17 * TREE_FRAMES] {
        for d in [-1i64, 0, 1] {
            v.insert((base as i64 + d) as usize);
        }
    }
    for _ in 0..random {
        v.insert(rng.range(1, 8 * TREE_FRAMES + 1));
    }
    v.into_iter().collect()
}

fn classings() -> Vec<Cl> {
    vec![
        vec![],
        vec![(0, 0)],
        vec![(0, 1)],
        vec![(0, 2), (1, 2)],
        vec![(0, 1), (1, 0)],
        vec![(0, 0), (1, 0), (2, 0)],
        vec![(0, 2), (1, 1), (2, 3)],
        vec![(3, 1), (5, 2), (7, 1)],
        vec![(0, 3), (1, 0), (2, 1)],
        vec![(0, 1), (0, 2)], // the same id twice: the later entry replaces the earlier one
    ]
}

struct Ranges {
    l: (usize, usize),
    t: (usize, usize),
    w: (usize, usize),
}
impl Ranges {
    fn classify(&self, addr: usize, width: usize) -> Option<(char, usize)> {
        for (n, (a, len)) in [('L', self.l), ('T', self.t), ('W', self.w)] {
            if addr >= a && addr + width <= a + len {
                return Some((n, addr - a));
            }
        }
        None
    }
}

/// operations that touch every kind of metadata word; avoids request shapes that hit the known
/// upper-level panics (targeted get with a slot, slots next to slot-less classes)
fn probe_ops(alloc: &LLFree, frames: usize, cl: &Cl, full: bool) {
    let all_slots = !cl.is_empty() && cl.iter().all(|&(_, n)| n > 0);
    let classes: Vec<(u8, usize)> = cl.clone();
    let cls0 = classes.first().map(|c| c.0).unwrap_or(0);
    // every slot once
    if all_slots {
        for &(c, n) in &classes {
            for i in 0..n {
                if let Ok((f, _)) = alloc.get(None, Request::new(0, Class(c), Some(i))) {
                    let _ = alloc.put(f, Request::new(0, Class(c), Some(i)));
                }
            }
        }
    }
    alloc.drain();
    // every frame at order 0, then free everything
    let mut held = Vec::new();
    // (only in the full probe; otherwise one frame per row)
    let limit = if full { frames } else { 0 };
    for _ in 0..limit {
        match alloc.get(None, Request::new(0, Class(cls0), None)) {
            Ok((f, _)) => held.push(f),
            Err(_) => break,
        }
    }
    let _ = alloc.stats();
    let _ = alloc.tree_stats();
    for f in held.drain(..) {
        let _ = alloc.put(f, Request::new(0, Class(cls0), None));
    }
    if !full {
        // one targeted frame per row: touches every row, entry and tree
        let rq = Request::new(0, Class(cls0), None);
        for f in (0..frames).step_by(64) {
            if alloc.get(Some(FrameId(f)), rq).is_ok() {
                held.push(FrameId(f));
            }
        }
        for f in held.drain(..) {
            let _ = alloc.put(f, rq);
        }
    }
    // every order: untargeted, then targeted at the last aligned block (narrow CAS for 3..6)
    for order in 0..=TREE_ORDER {
        let rq = Request::new(order, Class(cls0), None);
        if let Ok((f, _)) = alloc.get(None, rq) {
            let _ = alloc.put(f, rq);
        }
        let n = 1usize << order;
        if frames >= n {
            let last = (frames - n) / n * n;
            for f in [0, last, last / 2 / n * n] {
                if alloc.get(Some(FrameId(f)), rq).is_ok() {
                    let _ = alloc.stats_at(FrameId(f), 0);
                    let _ = alloc.put(FrameId(f), rq);
                }
            }
        }
    }
    if frames > 0 {
        for o in [0, HUGE_ORDER, TREE_ORDER] {
            let _ = alloc.stats_at(FrameId(0), o);
            let _ = alloc.stats_at(FrameId(frames - 1), o);
        }
    }
    // invalid arguments must not touch anything outside either
    let _ = alloc.get(None, Request::new(TREE_ORDER + 1, Class(cls0), None));
    let _ = alloc.get(Some(FrameId(frames)), Request::new(0, Class(cls0), None));
    let _ = alloc.put(FrameId(frames), Request::new(0, Class(cls0), None));
    let _ = alloc.stats();
    let _ = alloc.tree_stats();
    alloc.drain();
}

fn suite_meta(w: &mut dyn Write, rng: &mut Rng, scale: usize, only: &Only) {
    let mut counts = frame_counts(rng, 6 * scale);
    let mut cls = classings();
    if let Some(f) = only.frames {
        counts = vec![f];
        if let Some(c) = &only.cl {
            cls = vec![c.clone()];
        }
    }
    // sizes for the whole sweep
    for &frames in &counts {
        for cl in &cls {
            let c = mk_classing(cl);
            let ms = LLFree::metadata_size(&c, frames);
            writeln!(w, "MS {frames} {} {} {} {}", cl_name(cl), ms.local, ms.trees, ms.lower).unwrap();
        }
    }
    // a few very large counts (sizes only)
    for frames in [1usize << 30, (1usize << 30) + 1, (1usize << 40) - 1, usize::MAX / 2 / FRAME_SIZE] {
        if only.frames.is_some() {
            break;
        }
        let c = mk_classing(&cls[3]);
        let ms = LLFree::metadata_size(&c, frames);
        writeln!(w, "MS {frames} {} {} {} {}", cl_name(&cls[3]), ms.local, ms.trees, ms.lower).unwrap();
    }
    // probing: every frame count with two classings (rotating), exact-size guarded buffers
    for (k, &frames) in counts.iter().enumerate() {
        for j in 0..2 {
            if j >= cls.len() {
                break;
            }
            let cl = &cls[(k * 2 + j * 3 + 1) % cls.len()];
            let name = cl_name(cl);
            let c = mk_classing(cl);
            let ms = LLFree::metadata_size(&c, frames);
            let (bl, bt, bw) = (Buf::new(ms.local), Buf::new(ms.trees), Buf::new(ms.lower));
            let ranges = Ranges { l: (bl.addr(), ms.local), t: (bt.addr(), ms.trees), w: (bw.addr(), ms.lower) };
            ACCESSES.with(|a| a.borrow_mut().clear());
            set_hooks(Some((hook_before, hook_after)));
            for (iname, init) in [("freeall", Init::FreeAll), ("allocall", Init::AllocAll), ("recover", Init::Recover), ("none", Init::None)] {
                if init == Init::Recover {
                    // recover what a FreeAll instance left behind
                    bl.zero();
                    let _ = guarded(|| LLFree::new(frames, Init::FreeAll, &c, MetaData { local: bl.slice(), trees: bt.slice(), lower: bw.slice() }));
                }
                bl.zero();
                let meta = MetaData { local: bl.slice(), trees: bt.slice(), lower: bw.slice() };
                match guarded(|| LLFree::new(frames, init, &c, meta)) {
                    Err(p) => writeln!(w, "MN {frames} {name} {iname} panic {p}").unwrap(),
                    Ok(Err(e)) => writeln!(w, "MN {frames} {name} {iname} {}", errname(e)).unwrap(),
                    Ok(Ok(alloc)) => {
                        let st = alloc.stats();
                        writeln!(w, "MN {frames} {name} {iname} ok {} {}", alloc.frames(), st.free_frames).unwrap();
                        if init == Init::FreeAll || init == Init::Recover {
                            let full = init == Init::FreeAll && (frames <= 4 * TREE_FRAMES + 1 || (j == 0 && scale > 1));
                            match guarded(|| probe_ops(&alloc, frames, cl, full)) {
                                Ok(()) => writeln!(w, "MO {frames} {name} {iname} ok").unwrap(),
                                Err(p) => writeln!(w, "MO {frames} {name} {iname} panic {p}").unwrap(),
                            }
                        }
                    }
                }
            }
            set_hooks(None);
            let acc = ACCESSES.with(|a| std::mem::take(&mut *a.borrow_mut()));
            let mut distinct: BTreeSet<(char, usize, usize)> = BTreeSet::new();
            let mut oob = 0usize;
            for (addr, width) in acc {
                match ranges.classify(addr, width) {
                    Some((b, off)) => {
                        if addr % width != 0 {
                            writeln!(w, "HFAIL meta misaligned access frames={frames} cl={name} buf={b} off={off} width={width}").unwrap();
                        }
                        distinct.insert((b, off, width));
                    }
                    None => {
                        if oob < 5 {
                            writeln!(
                                w,
                                "HFAIL meta access outside the buffers frames={frames} cl={name} addr={addr:x} width={width} L={:x}+{} T={:x}+{} W={:x}+{}",
                                ranges.l.0, ranges.l.1, ranges.t.0, ranges.t.1, ranges.w.0, ranges.w.1
                            )
                            .unwrap();
                        }
                        oob += 1;
                    }
                }
            }
            for (b, off, width) in distinct {
                writeln!(w, "MA {frames} {name} {b} {off} {width}").unwrap();
            }
            if !(bl.guards_ok() && bt.guards_ok() && bw.guards_ok()) {
                writeln!(w, "HFAIL meta guard bytes overwritten frames={frames} cl={name} L={} T={} W={}", bl.guards_ok(), bt.guards_ok(), bw.guards_ok()).unwrap();
            }
        }
    }
}

// ------------------------------------------------------------------------------------------ valid suite
fn suite_valid(w: &mut dyn Write, rng: &mut Rng, scale: usize, only: &Only) {
    const ARENA: usize = 1 << 20;
    let layout = Layout::from_size_align(ARENA, 4096).unwrap();
    let arena = unsafe { alloc_zeroed(layout) };
    assert!(!arena.is_null());
    let a0 = arena as usize;
    let mut configs: Vec<(usize, Cl)> = vec![
        (1, vec![(0, 1)]),
        (TREE_FRAMES + 1, vec![(0, 2), (1, 2)]),
        (3 * TREE_FRAMES, vec![(0, 1), (1, 1), (2, 1)]),
        (17 * TREE_FRAMES + 5, vec![(0, 1)]),
        (TREE_FRAMES, vec![(0, 0)]),          // empty local buffer
        (TREE_FRAMES, vec![]),                // empty local buffer, no class
        (0, vec![(0, 1)]),                    // empty trees and lower buffers
        (0, vec![(0, 0)]),                    // all three empty
    ];
    if let Some(f) = only.frames {
        configs = vec![(f, only.cl.clone().unwrap_or_else(|| vec![(0, 1)]))];
    }
    let case = |w: &mut dyn Write, frames: usize, cl: &Cl, b: [(usize, usize); 3], tag: &str| {
        for (a, l) in b {
            assert!(a >= a0 && a + l <= a0 + ARENA, "case outside the arena");
        }
        unsafe { std::ptr::write_bytes(arena, 0, 1 << 16) };
        let c = mk_classing(cl);
        let mk = |(a, l): (usize, usize)| unsafe { std::slice::from_raw_parts_mut(a as *mut u8, l) };
        let meta = MetaData { local: mk(b[0]), trees: mk(b[1]), lower: mk(b[2]) };
        let res = match guarded(|| LLFree::new(frames, Init::FreeAll, &c, meta).map(|a| a.frames())) {
            Err(p) => format!("panic {p}"),
            Ok(Err(e)) => errname(e).to_string(),
            Ok(Ok(n)) => format!("ok {n}"),
        };
        writeln!(
            w,
            "V {frames} {} {:x} {} {:x} {} {:x} {} {tag} | {res}",
            cl_name(cl), b[0].0, b[0].1, b[1].0, b[1].1, b[2].0, b[2].1
        )
        .unwrap();
    };
    for (frames, cl) in &configs {
        let c = mk_classing(cl);
        let ms = LLFree::metadata_size(&c, *frames);
        let (sl, st, sw) = (ms.local, ms.trees, ms.lower);
        let frames = *frames;
        writeln!(w, "MS {frames} {} {sl} {st} {sw}", cl_name(cl)).unwrap();
        // canonical layout: spaced out, 64-aligned
        let base = a0 + 4096;
        let l0 = (base, sl);
        let t0 = (base + 8192, st);
        let w0 = (base + 16384, sw);
        case(w, frames, cl, [l0, t0, w0], "exact");
        // larger than needed
        case(w, frames, cl, [(l0.0, sl + 64), (t0.0, st + 1), (w0.0, sw + 4096)], "larger");
        // adjacent (touching) buffers in every order: must be accepted when none is empty
        case(w, frames, cl, [(base, sl), (base + sl, st), (base + sl + st, sw)], "adjacent-ltw");
        case(w, frames, cl, [(base + sw + st, sl), (base + sw, st), (base, sw)], "adjacent-wtl");
        case(w, frames, cl, [(base + st, sl), (base, st), (base + st + sl, sw)], "adjacent-tlw");
        // one byte short (each buffer)
        if sl > 0 {
            case(w, frames, cl, [(l0.0, sl - 1), t0, w0], "short-local");
        }
        if st > 0 {
            case(w, frames, cl, [l0, (t0.0, st - 1), w0], "short-trees");
        }
        if sw > 0 {
            case(w, frames, cl, [l0, t0, (w0.0, sw - 1)], "short-lower");
            case(w, frames, cl, [l0, t0, (w0.0, 0)], "empty-lower-needed");
        }
        // misaligned by 1..63 (each buffer; the buffer stays large enough)
        for d in 1..64usize {
            case(w, frames, cl, [(l0.0 + d, sl), t0, w0], "misaligned-local");
            case(w, frames, cl, [l0, (t0.0 + d, st), w0], "misaligned-trees");
            case(w, frames, cl, [l0, t0, (w0.0 + d, sw)], "misaligned-lower");
        }
        // overlapping: by one byte is impossible with 64-byte alignment and sizes that are multiples of
        // 64, so the buffers are made one byte longer; then by one cache line, nested, identical
        let pairs: [(usize, usize); 3] = [(0, 1), (1, 2), (2, 0)];
        let sizes = [sl, st, sw];
        for (x, y) in pairs {
            let (sx, sy) = (sizes[x], sizes[y]);
            let mut b = [l0, t0, w0];
            // y starts on the last byte of x (x one byte longer than a multiple of 64)
            b[x] = (base, sx.next_multiple_of(64) + 1);
            b[y] = (base + sx.next_multiple_of(64), sy + 64);
            case(w, frames, cl, b, "overlap-1byte");
            // the other way round
            let mut b = [l0, t0, w0];
            b[y] = (base, sy.next_multiple_of(64) + 1);
            b[x] = (base + sy.next_multiple_of(64), sx + 64);
            case(w, frames, cl, b, "overlap-1byte-rev");
            if sx >= 64 && sy > 0 {
                let mut b = [l0, t0, w0];
                b[x] = (base, sx);
                b[y] = (base + sx - 64, sy);
                case(w, frames, cl, b, "overlap-line");
            }
            // y nested strictly inside x (x enlarged)
            let mut b = [l0, t0, w0];
            b[x] = (base, sx + sy + 256);
            b[y] = (base + 64, sy);
            case(w, frames, cl, b, "nested");
            let mut b = [l0, t0, w0];
            b[y] = (base, sx + sy + 256);
            b[x] = (base + 128, sx);
            case(w, frames, cl, b, "nested-rev");
            // identical ranges
            let mut b = [l0, t0, w0];
            let m = sx.max(sy);
            b[x] = (base, m);
            b[y] = (base, m);
            case(w, frames, cl, b, "identical");
            // same start, different length
            let mut b = [l0, t0, w0];
            b[x] = (base, sx + 64);
            b[y] = (base, sy);
            case(w, frames, cl, b, "same-start");
            // same end
            let mut b = [l0, t0, w0];
            let e = base + 32768;
            b[x] = (e - (sx + 128), sx + 128);
            b[y] = (e - sy.next_multiple_of(64), sy.next_multiple_of(64));
            case(w, frames, cl, b, "same-end");
        }
        // empty buffers (only meaningful where a size is 0): at the start / inside / at the end of another
        for (x, y) in [(0usize, 1usize), (0, 2), (1, 2), (2, 1), (1, 0), (2, 0)] {
            if sizes[x] == 0 && sizes[y] > 0 {
                let other = [l0, t0, w0][y];
                for (tag, addr) in [
                    ("empty-at-start", other.0),
                    ("empty-at-end", other.0 + other.1),
                    ("empty-inside", other.0 + other.1 / 128 * 64),
                    ("empty-before", other.0 - 64),
                    ("empty-after", other.0 + other.1 + 64),
                ] {
                    let mut b = [l0, t0, w0];
                    b[x] = (addr, 0);
                    case(w, frames, cl, b, tag);
                }
            }
        }
        if sl == 0 && st == 0 && sw == 0 {
            case(w, frames, cl, [(base, 0), (base, 0), (base, 0)], "all-empty-same");
        }
        // random layouts
        for _ in 0..(40 * scale) {
            let mut b = [(0usize, 0usize); 3];
            for (i, s) in sizes.iter().enumerate() {
                let slot = rng.below(24) as usize * 64;
                let mis = if rng.chance(1, 8) { rng.range(1, 64) } else { 0 };
                let len = match rng.below(6) {
                    0 => s.saturating_sub(1),
                    1 => s + rng.range(0, 200),
                    _ => *s,
                };
                b[i] = (base + slot + mis, len);
            }
            case(w, frames, cl, b, "random");
        }
    }
    unsafe { dealloc(arena, layout) };
}

// ------------------------------------------------------------------------------------------ zone suite
fn res_get(r: Result<llfree::Result<(FrameId, Class)>, String>) -> String {
    match r {
        Err(p) => format!("panic {p}"),
        Ok(Err(e)) => errname(e).to_string(),
        Ok(Ok((f, c))) => format!("ok {:x} {}", f.0, c.0),
    }
}
fn res_put(r: Result<llfree::Result<()>, String>) -> String {
    match r {
        Err(p) => format!("panic {p}"),
        Ok(Err(e)) => errname(e).to_string(),
        Ok(Ok(())) => "ok".to_string(),
    }
}

fn simple_req(order: usize, core: usize) -> Request {
    Request::new(order, Class((order >= HUGE_ORDER) as u8), Some(core % 2))
}

fn suite_zone(w: &mut dyn Write, rng: &mut Rng, scale: usize, only: &Only) {
    let cl: Cl = vec![(0, 2), (1, 2)];
    let c = mk_classing(&cl);
    let tf = TREE_FRAMES;
    let big = (usize::MAX / 2) / tf * tf;
    let offsets: Vec<usize> = vec![0, tf, 7 * tf, 1usize << 40, big, big - tf, tf + 1, tf / 2, 1, (usize::MAX / tf) * tf];
    let lens = [tf, tf + 1, 2 * tf + 17, 3 * tf, 2 * tf + (1 << HUGE_ORDER) + 5, 1, 63];
    let mut id = 0usize;
    for &offset in &offsets {
        for (li, &frames) in lens.iter().enumerate() {
            if offset > 7 * tf && li >= 3 && offset != big {
                continue;
            }
            id += 1;
            let (offset, frames) = match (only.offset, only.frames) {
                (Some(o), Some(f)) => {
                    if id > 1 {
                        return;
                    }
                    (o, f)
                }
                _ => (offset, frames),
            };
            let ms = LLFree::metadata_size(&c, frames);
            let zb = (Buf::new(ms.local), Buf::new(ms.trees), Buf::new(ms.lower));
            let tb = (Buf::new(ms.local), Buf::new(ms.trees), Buf::new(ms.lower));
            let zone = guarded(|| {
                ZoneAlloc::<LLFree>::create(offset, frames, Init::FreeAll, &c, MetaData { local: zb.0.slice(), trees: zb.1.slice(), lower: zb.2.slice() })
            });
            let zone = match zone {
                Err(p) => {
                    writeln!(w, "ZC {id} {offset:x} {frames} panic {p}").unwrap();
                    continue;
                }
                Ok(Err(e)) => {
                    writeln!(w, "ZC {id} {offset:x} {frames} {}", errname(e)).unwrap();
                    continue;
                }
                Ok(Ok(z)) => {
                    writeln!(w, "ZC {id} {offset:x} {frames} ok {} {:x}", z.frames(), z.offset).unwrap();
                    z
                }
            };
            let twin = LLFree::new(frames, Init::FreeAll, &c, MetaData { local: tb.0.slice(), trees: tb.1.slice(), lower: tb.2.slice() }).unwrap();
            let overflow = offset.checked_add(frames).is_none();
            let mut held: Vec<(usize, usize, usize)> = Vec::new(); // inner frame, order, core
            let nops = if overflow { 40 } else { 150 * scale };
            for _ in 0..nops {
                let zs0 = stats_str(&zone.stats());
                // a zone whose frame numbers are not all representable (offset + frames > usize::MAX): only
                // untargeted gets and calls below the offset, so that zone and twin stay in step
                let pick = if overflow { [0, 0, 0, 55][rng.below(4) as usize] } else { rng.below(100) };
                let order = *rng.pick(&[0usize, 0, 0, 1, 2, 3, 4, 6, 7, HUGE_ORDER, HUGE_ORDER, TREE_ORDER]);
                let core = rng.below(2) as usize;
                let line;
                let (zr, tr);
                if pick < 40 {
                    // untargeted get
                    let rq = simple_req(order, core);
                    zr = res_get(guarded(|| zone.get(None, rq)));
                    let t = guarded(|| twin.get(None, rq));
                    if let Ok(Ok((f, _))) = &t {
                        held.push((f.0, order, core));
                    }
                    tr = res_get(t);
                    line = format!("get - {order} {} {core}", rq.class.0);
                } else if pick < 50 {
                    // targeted get at/above the offset (slot-less: avoids the known targeted-get defect)
                    let n = 1usize << order;
                    let inner = rng.below((frames + 2 * n) as u64) as usize / n * n;
                    let rq = Request::new(order, Class((order >= HUGE_ORDER) as u8), None);
                    match offset.checked_add(inner) {
                        Some(zf) => {
                            zr = res_get(guarded(|| zone.get(Some(FrameId(zf)), rq)));
                            let t = guarded(|| twin.get(Some(FrameId(inner)), rq));
                            if let Ok(Ok((f, _))) = &t {
                                held.push((f.0, order, core));
                            }
                            tr = res_get(t);
                            line = format!("get {zf:x} {order} {} -", rq.class.0);
                        }
                        None => continue,
                    }
                } else if pick < 60 {
                    // targeted get / put / stats_at below the offset
                    if offset == 0 {
                        continue;
                    }
                    let below = match rng.below(4) {
                        0 => offset - 1,
                        1 => 0,
                        2 => offset - (1 << order).min(offset),
                        _ => rng.below(offset as u64) as usize,
                    };
                    let rq = Request::new(order, Class((order >= HUGE_ORDER) as u8), None);
                    match rng.below(3) {
                        0 => {
                            zr = res_get(guarded(|| zone.get(Some(FrameId(below)), rq)));
                            line = format!("get {below:x} {order} {} -", rq.class.0);
                        }
                        1 => {
                            zr = res_put(guarded(|| zone.put(FrameId(below), rq)));
                            line = format!("put {below:x} {order} {} -", rq.class.0);
                        }
                        _ => {
                            let o = *rng.pick(&[0, HUGE_ORDER, TREE_ORDER]);
                            zr = match guarded(|| zone.stats_at(FrameId(below), o)) {
                                Ok(s) => format!("stats {}", stats_str(&s)),
                                Err(p) => format!("panic {p}"),
                            };
                            line = format!("stats_at {below:x} {o} - -");
                        }
                    }
                    tr = "-".to_string();
                } else if pick < 88 {
                    // put of a held block
                    if held.is_empty() {
                        continue;
                    }
                    let i = rng.below(held.len() as u64) as usize;
                    let (inner, o, co) = held.swap_remove(i);
                    let rq = simple_req(o, co);
                    match offset.checked_add(inner) {
                        Some(zf) => {
                            zr = res_put(guarded(|| zone.put(FrameId(zf), rq)));
                            tr = res_put(guarded(|| twin.put(FrameId(inner), rq)));
                            line = format!("put {zf:x} {o} {} {co}", rq.class.0);
                        }
                        None => {
                            // the zone never handed this frame out (offset + frame overflows)
                            tr = res_put(guarded(|| twin.put(FrameId(inner), rq)));
                            zr = "-".into();
                            line = format!("put-unrepresentable {inner:x} {o} {} {co}", rq.class.0);
                        }
                    }
                } else if pick < 93 {
                    // put of a block that is not allocated / out of range
                    let n = 1usize << order;
                    let inner = rng.below((frames + 2 * n) as u64) as usize / n * n;
                    if held.iter().any(|&(f, o, _)| f < inner + n && inner < f + (1 << o)) {
                        continue;
                    }
                    let rq = Request::new(order, Class((order >= HUGE_ORDER) as u8), None);
                    match offset.checked_add(inner) {
                        Some(zf) => {
                            zr = res_put(guarded(|| zone.put(FrameId(zf), rq)));
                            tr = res_put(guarded(|| twin.put(FrameId(inner), rq)));
                            line = format!("put {zf:x} {order} {} -", rq.class.0);
                        }
                        None => continue,
                    }
                } else {
                    // stats_at inside the range
                    let o = *rng.pick(&[0, HUGE_ORDER, TREE_ORDER]);
                    let inner = rng.below(frames as u64) as usize;
                    match offset.checked_add(inner) {
                        Some(zf) => {
                            zr = match guarded(|| zone.stats_at(FrameId(zf), o)) {
                                Ok(s) => format!("stats {}", stats_str(&s)),
                                Err(p) => format!("panic {p}"),
                            };
                            tr = match guarded(|| twin.stats_at(FrameId(inner), o)) {
                                Ok(s) => format!("stats {}", stats_str(&s)),
                                Err(p) => format!("panic {p}"),
                            };
                            line = format!("stats_at {zf:x} {o} - -");
                        }
                        None => continue,
                    }
                }
                let zs1 = stats_str(&zone.stats());
                let ts1 = stats_str(&twin.stats());
                writeln!(w, "Z {id} {offset:x} {frames} {line} | zone={zr} twin={tr} zs0={zs0} zs={zs1} ts={ts1}").unwrap();
            }
            // observation (not judged): stats_at beyond the managed range
            if !overflow && id % 7 == 1 {
                let beyond = offset + frames.next_multiple_of(TREE_FRAMES);
                let r = match guarded(|| zone.stats_at(FrameId(beyond), 0)) {
                    Ok(s) => format!("stats {}", stats_str(&s)),
                    Err(p) => format!("panic {p}"),
                };
                writeln!(w, "ZO {id} {offset:x} {frames} stats_at-beyond {beyond:x} | {r}").unwrap();
            }
            for b in [&zb.0, &zb.1, &zb.2, &tb.0, &tb.1, &tb.2] {
                if !b.guards_ok() {
                    writeln!(w, "HFAIL zone guard bytes overwritten id={id}").unwrap();
                }
            }
        }
    }
}

// ------------------------------------------------------------------------------------------ nvm suite
const MAGIC_OFF: usize = 0;
const FRAMES_OFF: usize = 8;

struct Region {
    ptr: *mut u8,
    layout: Layout,
}
impl Region {
    fn new(bytes: usize) -> Self {
        let layout = Layout::from_size_align(bytes, FRAME_SIZE << TREE_ORDER).unwrap();
        let ptr = unsafe { alloc_zeroed(layout) };
        assert!(!ptr.is_null());
        Region { ptr, layout }
    }
}
impl Drop for Region {
    fn drop(&mut self) {
        unsafe { dealloc(self.ptr, self.layout) };
    }
}

fn header_words(base: usize, z: usize) -> (usize, usize) {
    if z == 0 {
        return (0, 0);
    }
    let h = base + (z - 1) * FRAME_SIZE;
    unsafe { (((h + MAGIC_OFF) as *const usize).read_volatile(), ((h + FRAMES_OFF) as *const usize).read_volatile()) }
}

struct Created {
    alloc: NvmAlloc<'static, LLFree<'static>>,
    managed: usize,
    lower_addr: usize,
}

/// `NvmAlloc::create` + the NC transcript line
fn nvm_create(
    w: &mut dyn Write,
    id: usize,
    base: usize,
    z: usize,
    recover: bool,
    c: &'static Classing,
    local: &Buf,
    trees: &Buf,
) -> Option<Created> {
    let (hm, hf) = if base % FRAME_SIZE == 0 { header_words(base, z) } else { (0, 0) };
    local.zero();
    trees.zero();
    let zone: &'static mut [Frame] = unsafe { std::slice::from_raw_parts_mut(base as *mut Frame, z) };
    let r = guarded(|| NvmAlloc::<LLFree>::create(zone, recover, c, local.slice(), trees.slice()));
    let head = format!("NC {id} {base:x} {z} {} {hm:x} {hf:x}", recover as u8);
    match r {
        Err(p) => {
            writeln!(w, "{head} | panic {p}").unwrap();
            None
        }
        Ok(Err(e)) => {
            writeln!(w, "{head} | {}", errname(e)).unwrap();
            None
        }
        Ok(Ok(mut alloc)) => {
            let managed = alloc.frames();
            let offset = alloc.alloc.offset;
            let (la, ll) = {
                let m = unsafe { alloc.metadata() };
                (m.lower.as_ptr() as usize, m.lower.len())
            };
            writeln!(w, "{head} | ok {managed} {offset:x} {la:x} {ll}").unwrap();
            Some(Created { alloc, managed, lower_addr: la })
        }
    }
}

fn suite_nvm(w: &mut dyn Write, rng: &mut Rng, scale: usize, only: &Only) {
    let cl: Cl = vec![(0, 2), (1, 2)];
    let c: &'static Classing = Box::leak(Box::new(mk_classing(&cl)));
    let tf = TREE_FRAMES;
    let tree_bytes = FRAME_SIZE << TREE_ORDER;
    let region = Region::new(7 * tree_bytes);
    let r0 = region.ptr as usize;
    let mut zs: Vec<usize> = vec![0, 1, 2, 3, 4, 17, 511, 512, 513, 514, 1025, tf - 1, tf];
    for t in 1..=3usize {
        for k in [1usize, 2, 3, 5, 17, 511, 512, 513, 514, 1024, 1537, 1538] {
            zs.push(t * tf + k);
        }
        zs.push((t + 1) * tf);
    }
    if let Some(z) = only.z {
        assert!(z <= 4 * tf, "--only-z: at most 4 trees");
        zs = vec![z, z, z];
    }
    let mut id = 0usize;
    for (zi, &z) in zs.iter().enumerate() {
        let base = r0 + (zi % 3) * tree_bytes;
        assert!(base + (z + 2) * FRAME_SIZE <= r0 + 7 * tree_bytes);
        id += 1;
        // fresh region content
        unsafe { std::ptr::write_bytes(base as *mut u8, 0, (z + 2) * FRAME_SIZE) };
        let ms = NvmAlloc::<LLFree>::metadata_size(c, z);
        let (bl, bt) = (Buf::new(ms.local), Buf::new(ms.trees));
        // recover of an untouched (zeroed) region must be refused
        let _ = nvm_create(w, id, base, z, true, c, &bl, &bt);
        // misaligned base must be refused
        if zi % 4 == 0 && z > 1 {
            let _ = nvm_create(w, id, base + FRAME_SIZE, z - 1, false, c, &bl, &bt);
            unsafe { std::ptr::write_bytes(base as *mut u8, 0, (z + 2) * FRAME_SIZE) };
        }
        // zones that END at the same frame share the header page: an instance created on the suffix
        // region[k*TREE_FRAMES..] (a legal, tree-aligned zone) must not be recovered through the whole region
        // (recorded count smaller than zone.len() - 1) nor through another suffix; only through itself
        for k in [1usize, 2] {
            if z <= k * tf {
                continue;
            }
            let (sbase, sz) = (base + k * tf * FRAME_SIZE, z - k * tf);
            let Some(cr) = nvm_create(w, id, sbase, sz, false, c, &bl, &bt) else {
                continue;
            };
            for order in [0usize, 0, 3, HUGE_ORDER] {
                if let Ok(Ok((f, _))) = guarded(|| cr.alloc.get(None, simple_req(order, 0))) {
                    writeln!(w, "NG {id} {:x} {order}", f.0).unwrap();
                }
            }
            drop(cr);
            // (a) the whole region: larger zone, same header page -> refuse
            let _ = nvm_create(w, id, base, z, true, c, &bl, &bt);
            // the other suffix: larger (k = 2) or smaller (k = 1) zone, same header page -> refuse
            let ok_ = 3 - k;
            if z > ok_ * tf {
                let _ = nvm_create(w, id, base + ok_ * tf * FRAME_SIZE, z - ok_ * tf, true, c, &bl, &bt);
            }
            // (c) the instance's own zone -> accept
            let _ = nvm_create(w, id, sbase, sz, true, c, &bl, &bt);
            unsafe { std::ptr::write_bytes(base as *mut u8, 0, (z + 2) * FRAME_SIZE) };
        }
        let Some(cr) = nvm_create(w, id, base, z, false, c, &bl, &bt) else {
            continue;
        };
        let (alloc, managed, lower_addr) = (cr.alloc, cr.managed, cr.lower_addr);
        let header = base + (z - 1) * FRAME_SIZE;
        // random history
        let mut held: Vec<(usize, usize, usize)> = Vec::new();
        let mut panicked = false;
        for _ in 0..(200 * scale) {
            if rng.chance(3, 5) || held.is_empty() {
                let order = *rng.pick(&[0usize, 0, 0, 0, 1, 2, 3, 5, 6, 8, HUGE_ORDER, HUGE_ORDER, TREE_ORDER]);
                let core = rng.below(2) as usize;
                match guarded(|| alloc.get(None, simple_req(order, core))) {
                    Err(p) => {
                        writeln!(w, "NP {id} get {order} panic {p}").unwrap();
                        panicked = true;
                        break;
                    }
                    Ok(Err(_)) => {}
                    Ok(Ok((f, _))) => {
                        writeln!(w, "NG {id} {:x} {order}", f.0).unwrap();
                        let start = f.0.wrapping_mul(FRAME_SIZE);
                        let end = start.wrapping_add(FRAME_SIZE << order);
                        if f.0.checked_mul(FRAME_SIZE).is_none() || start < base || end > lower_addr || end > header {
                            writeln!(
                                w,
                                "HFAIL nvm returned block outside the frame area id={id} z={z} frame={:x} order={order} bytes=[{start:x},{end:x}) base={base:x} meta={lower_addr:x} header={header:x}",
                                f.0
                            )
                            .unwrap();
                        } else {
                            // use the memory: a block overlapping the metadata would corrupt it
                            unsafe { std::ptr::write_bytes(start as *mut u8, 0xab, FRAME_SIZE << order) };
                        }
                        held.push((f.0, order, core));
                    }
                }
            } else {
                let i = rng.below(held.len() as u64) as usize;
                let (f, o, co) = held.swap_remove(i);
                match guarded(|| alloc.put(FrameId(f), simple_req(o, co))) {
                    Ok(Ok(())) => {}
                    Ok(Err(e)) => writeln!(w, "HFAIL nvm put of a held block failed id={id} frame={f:x} order={o} {}", errname(e)).unwrap(),
                    Err(p) => {
                        writeln!(w, "NP {id} put {o} panic {p}").unwrap();
                        panicked = true;
                        break;
                    }
                }
            }
        }
        if panicked {
            continue;
        }
        let before = alloc.stats();
        let held_frames: usize = held.iter().map(|&(_, o, _)| 1usize << o).sum();
        drop(alloc);
        // recover with a different length must be refused (one frame shorter, one longer)
        if z >= 2 {
            let _ = nvm_create(w, id, base, z - 1, true, c, &bl, &bt);
        }
        let _ = nvm_create(w, id, base, z + 1, true, c, &bl, &bt);
        // (b) a suffix of the instance's zone: smaller zone, same header page (recorded count larger) -> refuse
        for k in [1usize, 2] {
            if z > k * tf {
                let _ = nvm_create(w, id, base + k * tf * FRAME_SIZE, z - k * tf, true, c, &bl, &bt);
            }
        }
        // magic intact, recorded frame count off by one in either direction -> refuse
        {
            let fp = (base + (z - 1) * FRAME_SIZE + FRAMES_OFF) as *mut usize;
            let recorded = unsafe { fp.read_volatile() };
            for wrong in [recorded.wrapping_sub(1), recorded + 1] {
                unsafe { fp.write_volatile(wrong) };
                let _ = nvm_create(w, id, base, z, true, c, &bl, &bt);
            }
            unsafe { fp.write_volatile(recorded) };
        }
        // recover with the same length must succeed with the same allocation state
        let Some(cr) = nvm_create(w, id, base, z, true, c, &bl, &bt) else {
            writeln!(w, "NS {id} {managed} {held_frames} {} {} - - -", before.free_frames, before.free_huge).unwrap();
            continue;
        };
        let alloc = cr.alloc;
        let after = alloc.stats();
        let mut ok = true;
        for &(f, o, co) in &held {
            match guarded(|| alloc.put(FrameId(f), simple_req(o, co))) {
                Ok(Ok(())) => {}
                Ok(Err(e)) => {
                    ok = false;
                    writeln!(w, "HFAIL nvm put after recover failed id={id} z={z} frame={f:x} order={o} {}", errname(e)).unwrap();
                }
                Err(p) => {
                    ok = false;
                    writeln!(w, "NP {id} put-after-recover {o} panic {p}").unwrap();
                }
            }
        }
        let fin = alloc.stats();
        writeln!(
            w,
            "NS {id} {managed} {held_frames} {} {} {} {} {}",
            before.free_frames, before.free_huge, after.free_frames, after.free_huge,
            if ok { fin.free_frames.to_string() } else { "-".into() }
        )
        .unwrap();
        if !(bl.guards_ok() && bt.guards_ok()) {
            writeln!(w, "HFAIL nvm guard bytes overwritten id={id}").unwrap();
        }
    }
}

fn main() {
    let args = Args::parse();
    let seed = args.num("seed", 1);
    let scale = args.num("scale", 1) as usize;
    let suite = args.get("suite").unwrap_or("all").to_string();
    let mut w = out(args.get("out"));
    install_hook();
    writeln!(w, "G {} {} {}", HUGE_ORDER, TREE_HUGE.ilog2(), FRAME_SIZE).unwrap();
    let only = Only {
        frames: args.get("only-frames").map(|s| s.parse().expect("only-frames")),
        cl: args.get("only-cl").map(parse_cl),
        offset: args.get("only-offset").map(|s| usize::from_str_radix(s, 16).expect("only-offset (hex)")),
        z: args.get("only-z").map(|s| s.parse().expect("only-z")),
    };
    let mut rng = Rng::new(seed);
    if suite == "meta" || suite == "all" {
        suite_meta(&mut *w, &mut rng.clone(), scale, &only);
    }
    if suite == "valid" || suite == "all" {
        rng.next();
        suite_valid(&mut *w, &mut rng.clone(), scale, &only);
    }
    if suite == "zone" || suite == "all" {
        rng.next();
        suite_zone(&mut *w, &mut rng.clone(), scale, &only);
    }
    if suite == "nvm" || suite == "all" {
        rng.next();
        suite_nvm(&mut *w, &mut rng.clone(), scale, &only);
    }
    w.flush().unwrap();
}
