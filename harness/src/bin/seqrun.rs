//! Sequential correspondence harness: runs the REAL allocator (`llfree::LLFree`) through seeded random
//! and bounded-exhaustive operation sequences and writes a line transcript that `driver/seq.ml`
//! replays through the extracted Coq model and checks against the extracted specification.
//!
//! Transcript (one history = the lines between `H <id> ...` and `E <id>`):
//!   `GEOM huge_order=<n> tree_huge=<n>`                                    once per file
//!   `H <id> suite=<name> seed=<seed>`
//!   `CFG huge_order=9 tree_huge=4 frames=<n> init=<free|alloc> default=<c> policy=<name> classes=<c>:<n>,...`
//!   `INIT => ok | err init | panic <file>:<line> <msg>`     followed by `ST ...` when ok
//!   `OP <i> get <frame|-> <order> <class> <local|-> => ok <frame> <class> | err mem|arg|init | panic <loc> <msg>`
//!   `OP <i> put <frame> <order> <class> <local|-> => ok | err .. | panic ..`
//!   `OP <i> drain => ok`
//!   `OP <i> change <id|-> <mclass|-> <mfree> <newclass|-> <on|off|-> => ok | err ..`
//!   `OP <i> handoff => ok`      (second allocator over byte copies, Init::None; then every op runs on both)
//!   `OP <i> recover => ok`      (new allocator over a copy of the lower buffer, fresh trees/locals, Init::Recover)
//!   `OP <i> lowerget <row> <order> => ok <frame> | err mem`  on a throw-away copy; followed by `LST ents=.. rows=..`
//!   `Q <i> stats => <free_frames> <free_huge> <free_trees>`
//!   `Q <i> stats_at <frame> <order> => <free_frames> <free_huge> <free_trees>`
//!   `Q <i> tree_stats => <free_frames> <free_trees> <c0free>:<c0alloc>,...(8 classes)`
//!   `Q <i> is_free <frame> <order> => 0|1`
//!   `Q <i> validate => ok | panic ..`
//!   after every OP: `ST trees=<free>/<r>/<class>,... locals=<class>:<p>/<row>/<free>,..;<class>:.. ents=<hex>,.. rows=<bf>,<bf>..`
//!     (`ST =`: identical to the previous dump of this history; `ST ~`: dump omitted; a list without
//!      elements is `-`; a bitfield is `z` (all rows 0), `m` (all rows u64::MAX) or its rows joined by `.`,
//!      each row `z`, `m` or hex).  After a Q an ST line is written only if the query changed the buffers.
//!   `HFAIL <i> <text>`   the handoff twin differs (result, statistics or buffer contents)
//!   `CANARY <i> <buf>`   the guard region around a metadata buffer was modified
//!
//! Replay: `seqrun --suite replay --file <ops>`: a CFG line followed by OP/Q lines (results ignored).
#![allow(clippy::too_many_arguments)]
use std::alloc::{Layout, alloc_zeroed, dealloc};
use std::cell::RefCell;
use std::fmt::Write as FmtWrite;
use std::io::Write;
use std::panic::{AssertUnwindSafe, catch_unwind};

use llfree::{
    Alloc, Class, Classing, Error, FrameId, HUGE_FRAMES, HUGE_ORDER, Init, LLFree, MetaData,
    PolicyFn, Request, TREE_FRAMES, TREE_HUGE, TREE_ORDER, TreeChange, TreeId, TreeMatch,
    TreeOperation,
};
use llfree_verif_harness::{Args, Rng, out, policy_by_name};

// ------------------------------------------------------------------------------------------ panics
thread_local! {
    static LAST_PANIC: RefCell<Option<String>> = const { RefCell::new(None) };
}

fn install_hook() {
    std::panic::set_hook(Box::new(|info| {
        let loc = info
            .location()
            .map(|l| {
                let f = l.file();
                let base = f.rsplit('/').next().unwrap_or(f);
                format!("{}:{}", base, l.line())
            })
            .unwrap_or_else(|| "?:0".into());
        let msg = if let Some(s) = info.payload().downcast_ref::<&str>() {
            (*s).to_string()
        } else if let Some(s) = info.payload().downcast_ref::<String>() {
            s.clone()
        } else {
            "?".to_string()
        };
        let msg: String = msg.chars().map(|c| if c.is_control() { ' ' } else { c }).collect();
        LAST_PANIC.with(|l| *l.borrow_mut() = Some(format!("{loc} {msg}")));
    }));
}

/// Run `f`; a panic becomes `Err("<file>:<line> <message>")`
fn guarded<T>(f: impl FnOnce() -> T) -> Result<T, String> {
    LAST_PANIC.with(|l| *l.borrow_mut() = None);
    match catch_unwind(AssertUnwindSafe(f)) {
        Ok(v) => Ok(v),
        Err(_) => Err(LAST_PANIC
            .with(|l| l.borrow_mut().take())
            .unwrap_or_else(|| "?:0 unknown".into())),
    }
}

// ------------------------------------------------------------------------------------------ buffers
const GUARD: usize = 64;
const GUARD_BYTE: u8 = 0xc5;

// ---- atomic-read discipline of the query functions (C18): while a query runs, the `verif` hooks count the atomic
// loads that fall into the lower / trees / local buffer; a query that reads shared metadata with plain (non-atomic)
// reads shows up as too few hooked loads (a data race with concurrent get/put that no single-threaded result exposes)
static ACC_RANGES: [std::sync::atomic::AtomicUsize; 6] = [const { std::sync::atomic::AtomicUsize::new(0) }; 6];
static ACC_LOADS: [std::sync::atomic::AtomicUsize; 4] = [const { std::sync::atomic::AtomicUsize::new(0) }; 4];
static ACC_WRITES: std::sync::atomic::AtomicUsize = std::sync::atomic::AtomicUsize::new(0);
fn acc_before(_k: llfree::verif::Kind, _addr: usize, _w: usize) {}
fn acc_after(k: llfree::verif::Kind, addr: usize, _w: usize, _v: u64, _ok: bool) {
    use std::sync::atomic::Ordering::Relaxed;
    if k != llfree::verif::Kind::Load {
        ACC_WRITES.fetch_add(1, Relaxed);
        return;
    }
    for r in 0..3 {
        let (lo, len) = (ACC_RANGES[2 * r].load(Relaxed), ACC_RANGES[2 * r + 1].load(Relaxed));
        if addr >= lo && addr < lo + len {
            ACC_LOADS[r].fetch_add(1, Relaxed);
            return;
        }
    }
    ACC_LOADS[3].fetch_add(1, Relaxed);
}

/// A 64-byte aligned buffer of exactly `size` usable bytes with a guard region before and after it.
struct Buf {
    raw: *mut u8,
    size: usize,
    /// a window into a larger arena (no guards of its own; the neighbouring bytes belong to the other buffers)
    view_of: Option<std::rc::Rc<Buf>>,
}
impl Buf {
    /// `size` bytes at offset `off` of `arena`
    fn view(arena: &std::rc::Rc<Buf>, off: usize, size: usize) -> Self {
        assert!(off + size <= arena.size);
        Buf { raw: unsafe { arena.ptr().add(off) }, size, view_of: Some(arena.clone()) }
    }
    fn new(size: usize) -> Self {
        let layout = Layout::from_size_align(size + 2 * GUARD, 64).unwrap();
        let raw = unsafe { alloc_zeroed(layout) };
        assert!(!raw.is_null());
        unsafe {
            std::ptr::write_bytes(raw, GUARD_BYTE, GUARD);
            std::ptr::write_bytes(raw.add(GUARD + size), GUARD_BYTE, GUARD);
        }
        Buf { raw, size, view_of: None }
    }
    /// A buffer with arbitrary non-zero previous content: `LLFree::new` with FreeAll / AllocAll (and the tree
    /// array in every mode but None) must initialise every word itself and not rely on zeroed memory.
    fn dirty(size: usize, salt: u8) -> Self {
        let b = Buf::new(size);
        for i in 0..size {
            let v = (i as u8).wrapping_mul(37).wrapping_add(salt) | 1;
            unsafe { b.ptr().add(i).write_volatile(v) };
        }
        b
    }
    fn ptr(&self) -> *mut u8 {
        if self.view_of.is_some() {
            return self.raw;
        }
        unsafe { self.raw.add(GUARD) }
    }
    /// The slice handed to the allocator (it keeps it for 'static; we keep the raw pointer)
    fn slice(&self) -> &'static mut [u8] {
        unsafe { std::slice::from_raw_parts_mut(self.ptr(), self.size) }
    }
    fn copy_of(other: &Buf) -> Self {
        let b = Buf::new(other.size);
        unsafe { std::ptr::copy_nonoverlapping(other.ptr(), b.ptr(), other.size) };
        b
    }
    fn guards_ok(&self) -> bool {
        if let Some(a) = &self.view_of {
            return a.guards_ok();
        }
        unsafe {
            (0..GUARD).all(|i| self.raw.add(i).read_volatile() == GUARD_BYTE)
                && (0..GUARD).all(|i| self.raw.add(GUARD + self.size + i).read_volatile() == GUARD_BYTE)
        }
    }
    fn u16_at(&self, off: usize) -> u16 {
        assert!(off + 2 <= self.size);
        unsafe { (self.ptr().add(off) as *const u16).read_volatile() }
    }
    fn u32_at(&self, off: usize) -> u32 {
        assert!(off + 4 <= self.size);
        unsafe { (self.ptr().add(off) as *const u32).read_volatile() }
    }
    fn u64_at(&self, off: usize) -> u64 {
        assert!(off + 8 <= self.size);
        unsafe { (self.ptr().add(off) as *const u64).read_volatile() }
    }
}
impl Drop for Buf {
    fn drop(&mut self) {
        if self.view_of.is_some() {
            return;
        }
        let layout = Layout::from_size_align(self.size + 2 * GUARD, 64).unwrap();
        unsafe { dealloc(self.raw, layout) };
    }
}

// ------------------------------------------------------------------------------------------ configuration
#[derive(Clone, Copy, PartialEq, Eq, Debug)]
enum Pol {
    Simple,
    Movable,
    Zeroed,
    Zeroslot,
    Custom,
}
impl Pol {
    fn name(self) -> &'static str {
        match self {
            Pol::Simple => "simple",
            Pol::Movable => "movable",
            Pol::Zeroed => "zeroed",
            Pol::Zeroslot => "zeroslot",
            Pol::Custom => "custom",
        }
    }
    fn parse(s: &str) -> Self {
        match s {
            "simple" => Pol::Simple,
            "movable" => Pol::Movable,
            "zeroed" => Pol::Zeroed,
            "zeroslot" => Pol::Zeroslot,
            "custom" => Pol::Custom,
            _ => panic!("seqrun: unknown policy {s}"),
        }
    }
    fn func(self) -> PolicyFn {
        // shared with polrun (tabulated there against Policies.v): harness/src/lib.rs
        policy_by_name(self.name())
    }
}

#[derive(Clone, Debug)]
struct Cfg {
    frames: usize,
    alloc_all: bool,
    default: u8,
    pol: Pol,
    classes: Vec<(u8, usize)>,
    /// the three metadata buffers are carved back to back (local | trees | lower) out of one arena of exactly the
    /// requested sizes: an undersized region then overwrites its neighbour instead of a guard
    packed: bool,
}
impl Cfg {
    fn line(&self) -> String {
        let cl: Vec<String> = self.classes.iter().map(|(c, n)| format!("{c}:{n}")).collect();
        format!(
            "CFG huge_order={} tree_huge={} frames={} init={} default={} policy={} classes={}{}",
            HUGE_ORDER,
            TREE_HUGE,
            self.frames,
            if self.alloc_all { "alloc" } else { "free" },
            self.default,
            self.pol.name(),
            cl.join(","),
            if self.packed { " packed=1" } else { "" }
        )
    }
    fn parse(line: &str) -> Cfg {
        let mut c = Cfg { frames: 0, alloc_all: false, default: 0, pol: Pol::Simple, classes: vec![], packed: false };
        for kv in line.split_whitespace().skip(1) {
            let (k, v) = kv.split_once('=').expect("CFG key=value");
            match k {
                "huge_order" => assert_eq!(v.parse::<usize>().unwrap(), HUGE_ORDER, "geometry of the replay file"),
                "tree_huge" => assert_eq!(v.parse::<usize>().unwrap(), TREE_HUGE, "geometry of the replay file"),
                "frames" => c.frames = v.parse().unwrap(),
                "init" => c.alloc_all = v == "alloc",
                "default" => c.default = v.parse().unwrap(),
                "packed" => c.packed = v == "1",
                "policy" => c.pol = Pol::parse(v),
                "classes" => {
                    c.classes = v
                        .split(',')
                        .filter(|e| !e.is_empty())
                        .map(|e| {
                            let (a, b) = e.split_once(':').unwrap();
                            (a.parse().unwrap(), b.parse().unwrap())
                        })
                        .collect()
                }
                _ => {}
            }
        }
        c
    }
    fn classing(&self) -> Classing {
        let cl: Vec<(Class, usize)> = self.classes.iter().map(|&(c, n)| (Class(c), n)).collect();
        Classing::new(&cl, Class(self.default), self.pol.func())
    }
    fn slots(&self, class: u8) -> Option<usize> {
        self.classes.iter().rev().find(|(c, _)| *c == class).map(|(_, n)| *n)
    }
    fn ntrees(&self) -> usize {
        self.frames.div_ceil(TREE_FRAMES)
    }
}

// ------------------------------------------------------------------------------------------ allocator instance
const ROWS: usize = HUGE_FRAMES / 64;
const BF_BYTES: usize = ROWS * 8;
const TABLE_BYTES: usize = (TREE_HUGE * 2).next_multiple_of(64);

struct Inst {
    alloc: LLFree<'static>,
    lower: Buf,
    trees: Buf,
    local: Buf,
}

fn meta_of(lower: &Buf, trees: &Buf, local: &Buf) -> MetaData<'static> {
    MetaData { local: local.slice(), trees: trees.slice(), lower: lower.slice() }
}

/// Layout assumptions of the dump, checked against the crate's own size computation; a discrepancy is reported in
/// the transcript (`LAYOUT` line: the history cannot run, its buffers would be laid out differently from the dump)
fn check_layout(cfg: &Cfg) -> Option<String> {
    let ms = LLFree::metadata_size(&cfg.classing(), cfg.frames);
    let nbf = cfg.frames.div_ceil(HUGE_FRAMES);
    let ntab = cfg.frames.div_ceil(TREE_FRAMES);
    let nslots: usize = cfg.classes.iter().map(|(_, n)| *n).sum();
    let want = (nslots * 64, (ntab * 4).next_multiple_of(64), nbf * BF_BYTES + ntab * TABLE_BYTES);
    if (ms.local, ms.trees, ms.lower) != want {
        return Some(format!(
            "metadata_size(frames={}) = local {} trees {} lower {}, the layout of {} bitfields, {} tables, {} tree entries, {} slots needs local {} trees {} lower {}",
            cfg.frames, ms.local, ms.trees, ms.lower, nbf, ntab, ntab, nslots, want.0, want.1, want.2
        ));
    }
    None
}

impl Inst {
    /// Fresh buffers + `LLFree::new(init)`
    fn create(cfg: &Cfg, init: Init) -> Result<llfree::Result<Inst>, String> {
        let classing = cfg.classing();
        let ms = LLFree::metadata_size(&classing, cfg.frames);
        // the lower and trees buffers start with garbage (the local buffer must be zeroed: Locals::new relies on it)
        // (an empty region that starts where its neighbour starts is rejected by MetaData::valid's overlap test - a
        // conservative quirk that Meta.v models and `zonerun valid` exercises; the packed layout is used without empty regions)
        if cfg.packed && ms.local > 0 && cfg.frames > 0 {
            let arena = std::rc::Rc::new(Buf::dirty(ms.local + ms.trees + ms.lower, 0x5b));
            unsafe { std::ptr::write_bytes(arena.ptr(), 0, ms.local) };
            let local = Buf::view(&arena, 0, ms.local);
            let trees = Buf::view(&arena, ms.local, ms.trees);
            let lower = Buf::view(&arena, ms.local + ms.trees, ms.lower);
            return Self::over(cfg, init, lower, trees, local);
        }
        let (lower, trees, local) = (Buf::dirty(ms.lower, 0x5b), Buf::dirty(ms.trees, 0xa7), Buf::new(ms.local));
        Self::over(cfg, init, lower, trees, local)
    }
    fn over(cfg: &Cfg, init: Init, lower: Buf, trees: Buf, local: Buf) -> Result<llfree::Result<Inst>, String> {
        let classing = cfg.classing();
        let meta = meta_of(&lower, &trees, &local);
        let r = guarded(|| LLFree::new(cfg.frames, init, &classing, meta))?;
        Ok(r.map(|alloc| Inst { alloc, lower, trees, local }))
    }
    /// byte copies of all three buffers, `Init::None`
    fn handoff(&self, cfg: &Cfg) -> Result<llfree::Result<Inst>, String> {
        Self::over(cfg, Init::None, Buf::copy_of(&self.lower), Buf::copy_of(&self.trees), Buf::copy_of(&self.local))
    }
    /// copy of the lower buffer only, zeroed trees/locals, `Init::Recover`
    fn recover(&self, cfg: &Cfg) -> Result<llfree::Result<Inst>, String> {
        Self::over(cfg, Init::Recover, Buf::copy_of(&self.lower), Buf::dirty(self.trees.size, 0x3d), Buf::new(self.local.size))
    }
    fn guards(&self) -> Option<&'static str> {
        if !self.lower.guards_ok() {
            Some("lower")
        } else if !self.trees.guards_ok() {
            Some("trees")
        } else if !self.local.guards_ok() {
            Some("local")
        } else {
            None
        }
    }
    fn tree_word(&self, t: usize) -> u32 {
        self.trees.u32_at(t * 4)
    }
}

fn push_row(s: &mut String, v: u64) {
    if v == 0 {
        s.push('z');
    } else if v == u64::MAX {
        s.push('m');
    } else {
        write!(s, "{v:x}").unwrap();
    }
}

/// `ents=... rows=...` of a lower buffer
fn dump_lower(s: &mut String, cfg: &Cfg, lower: &Buf) {
    let nbf = cfg.frames.div_ceil(HUGE_FRAMES);
    let ntab = cfg.frames.div_ceil(TREE_FRAMES);
    s.push_str("ents=");
    if ntab == 0 {
        s.push('-');
    }
    let tab0 = nbf * BF_BYTES;
    for t in 0..ntab {
        for j in 0..TREE_HUGE {
            if t + j > 0 {
                s.push(',');
            }
            write!(s, "{:x}", lower.u16_at(tab0 + t * TABLE_BYTES + j * 2)).unwrap();
        }
    }
    s.push_str(" rows=");
    if nbf == 0 {
        s.push('-');
    }
    for b in 0..nbf {
        if b > 0 {
            s.push(',');
        }
        let rows: [u64; ROWS] = std::array::from_fn(|r| lower.u64_at(b * BF_BYTES + r * 8));
        if rows.iter().all(|&v| v == 0) {
            s.push('z');
        } else if rows.iter().all(|&v| v == u64::MAX) {
            s.push('m');
        } else {
            for (r, v) in rows.iter().enumerate() {
                if r > 0 {
                    s.push('.');
                }
                push_row(s, *v);
            }
        }
    }
}

/// The decoded content of all three buffers
fn dump(cfg: &Cfg, inst: &Inst) -> String {
    let mut s = String::with_capacity(512);
    let ntab = cfg.ntrees();
    s.push_str("trees=");
    if ntab == 0 {
        s.push('-');
    }
    for t in 0..ntab {
        if t > 0 {
            s.push(',');
        }
        let v = inst.tree_word(t);
        write!(s, "{}/{}/{}", v & 0x0fff_ffff, (v >> 28) & 1, v >> 29).unwrap();
    }
    s.push_str(" locals=");
    if cfg.classes.is_empty() {
        s.push('-');
    }
    let mut off = 0;
    for (i, &(c, n)) in cfg.classes.iter().enumerate() {
        if i > 0 {
            s.push(';');
        }
        write!(s, "{c}:").unwrap();
        for k in 0..n {
            if k > 0 {
                s.push(',');
            }
            let v = inst.local.u64_at(off + k * 64);
            write!(s, "{}/{}/{}", v >> 63, v & ((1u64 << 44) - 1), (v >> 44) & ((1u64 << 19) - 1)).unwrap();
        }
        off += n * 64;
    }
    s.push(' ');
    dump_lower(&mut s, cfg, &inst.lower);
    s
}

// ------------------------------------------------------------------------------------------ operations
#[derive(Clone, Debug, PartialEq)]
enum Op {
    Get { frame: Option<usize>, order: usize, class: u8, local: Option<usize> },
    Put { frame: usize, order: usize, class: u8, local: Option<usize> },
    Drain,
    /// op: Some(true) = online, Some(false) = offline
    Change { id: Option<usize>, mclass: Option<u8>, mfree: usize, nclass: Option<u8>, op: Option<bool> },
    Handoff,
    Recover,
    LowerGet { row: usize, order: usize },
    Stats,
    StatsAt { frame: usize, order: usize },
    TreeStats,
    IsFree { frame: usize, order: usize },
    Validate,
}

fn opt<T: std::fmt::Display>(v: &Option<T>) -> String {
    match v {
        Some(x) => x.to_string(),
        None => "-".into(),
    }
}
fn popt<T: std::str::FromStr>(s: &str) -> Option<T> {
    if s == "-" { None } else { Some(s.parse().ok().expect("number")) }
}

impl Op {
    fn is_query(&self) -> bool {
        matches!(self, Op::Stats | Op::StatsAt { .. } | Op::TreeStats | Op::IsFree { .. } | Op::Validate)
    }
    fn text(&self) -> String {
        match self {
            Op::Get { frame, order, class, local } => format!("get {} {order} {class} {}", opt(frame), opt(local)),
            Op::Put { frame, order, class, local } => format!("put {frame} {order} {class} {}", opt(local)),
            Op::Drain => "drain".into(),
            Op::Change { id, mclass, mfree, nclass, op } => format!(
                "change {} {} {mfree} {} {}",
                opt(id),
                opt(mclass),
                opt(nclass),
                match op {
                    Some(true) => "on",
                    Some(false) => "off",
                    None => "-",
                }
            ),
            Op::Handoff => "handoff".into(),
            Op::Recover => "recover".into(),
            Op::LowerGet { row, order } => format!("lowerget {row} {order}"),
            Op::Stats => "stats".into(),
            Op::StatsAt { frame, order } => format!("stats_at {frame} {order}"),
            Op::TreeStats => "tree_stats".into(),
            Op::IsFree { frame, order } => format!("is_free {frame} {order}"),
            Op::Validate => "validate".into(),
        }
    }
    /// tokens after `OP <i>` / `Q <i>` (anything from `=>` on is ignored)
    fn parse(t: &[&str]) -> Option<Op> {
        let t: Vec<&str> = t.iter().take_while(|x| **x != "=>").copied().collect();
        Some(match *t.first()? {
            "get" => Op::Get { frame: popt(t[1]), order: t[2].parse().ok()?, class: t[3].parse().ok()?, local: popt(t[4]) },
            "put" => Op::Put { frame: t[1].parse().ok()?, order: t[2].parse().ok()?, class: t[3].parse().ok()?, local: popt(t[4]) },
            "drain" => Op::Drain,
            "change" => Op::Change {
                id: popt(t[1]),
                mclass: popt(t[2]),
                mfree: t[3].parse().ok()?,
                nclass: popt(t[4]),
                op: match t[5] {
                    "on" => Some(true),
                    "off" => Some(false),
                    _ => None,
                },
            },
            "handoff" => Op::Handoff,
            "recover" => Op::Recover,
            "lowerget" => Op::LowerGet { row: t[1].parse().ok()?, order: t[2].parse().ok()? },
            "stats" => Op::Stats,
            "stats_at" => Op::StatsAt { frame: t[1].parse().ok()?, order: t[2].parse().ok()? },
            "tree_stats" => Op::TreeStats,
            "is_free" => Op::IsFree { frame: t[1].parse().ok()?, order: t[2].parse().ok()? },
            "validate" => Op::Validate,
            _ => return None,
        })
    }
}

fn err_name(e: Error) -> &'static str {
    match e {
        Error::Memory => "err mem",
        Error::Argument => "err arg",
        Error::Initialization => "err init",
    }
}

/// What the harness needs to know about a result
#[derive(Clone, Debug, PartialEq)]
enum Out {
    GetOk(usize, u8),
    Ok,
    Err(Error),
    Panic,
    Other,
}

/// Run one call on one allocator; returns (result text, outcome)
fn call(alloc: &LLFree<'static>, op: &Op) -> (String, Out) {
    let pan = |m: String| (format!("panic {m}"), Out::Panic);
    match op {
        Op::Get { frame, order, class, local } => {
            match guarded(|| alloc.get(frame.map(FrameId), Request::new(*order, Class(*class), *local))) {
                Ok(Ok((f, c))) => (format!("ok {} {}", f.0, c.0), Out::GetOk(f.0, c.0)),
                Ok(Err(e)) => (err_name(e).into(), Out::Err(e)),
                Err(m) => pan(m),
            }
        }
        Op::Put { frame, order, class, local } => {
            match guarded(|| alloc.put(FrameId(*frame), Request::new(*order, Class(*class), *local))) {
                Ok(Ok(())) => ("ok".into(), Out::Ok),
                Ok(Err(e)) => (err_name(e).into(), Out::Err(e)),
                Err(m) => pan(m),
            }
        }
        Op::Drain => match guarded(|| alloc.drain()) {
            Ok(()) => ("ok".into(), Out::Ok),
            Err(m) => pan(m),
        },
        Op::Change { id, mclass, mfree, nclass, op } => {
            let m = TreeMatch { id: id.map(TreeId), class: mclass.map(Class), free: *mfree };
            let c = TreeChange {
                class: nclass.map(Class),
                operation: op.map(|on| if on { TreeOperation::Online } else { TreeOperation::Offline }),
            };
            match guarded(|| alloc.change_tree(m, c)) {
                Ok(Ok(())) => ("ok".into(), Out::Ok),
                Ok(Err(e)) => (err_name(e).into(), Out::Err(e)),
                Err(m) => pan(m),
            }
        }
        Op::LowerGet { row, order } => match guarded(|| llfree::verif::lower_get(alloc, *row, *order, None)) {
            Ok(Ok(f)) => (format!("ok {f}"), Out::Other),
            Ok(Err(e)) => (err_name(e).into(), Out::Err(e)),
            Err(m) => pan(m),
        },
        Op::Stats => match guarded(|| alloc.stats()) {
            Ok(s) => (format!("{} {} {}", s.free_frames, s.free_huge, s.free_trees), Out::Other),
            Err(m) => pan(m),
        },
        Op::StatsAt { frame, order } => match guarded(|| alloc.stats_at(FrameId(*frame), *order)) {
            Ok(s) => (format!("{} {} {}", s.free_frames, s.free_huge, s.free_trees), Out::Other),
            Err(m) => pan(m),
        },
        Op::TreeStats => match guarded(|| alloc.tree_stats()) {
            Ok(s) => {
                let cl: Vec<String> = s.classes.iter().map(|c| format!("{}:{}", c.free_frames, c.alloc_frames)).collect();
                (format!("{} {} {}", s.free_frames, s.free_trees, cl.join(",")), Out::Other)
            }
            Err(m) => pan(m),
        },
        Op::IsFree { frame, order } => match guarded(|| alloc.lower.is_free(FrameId(*frame), *order)) {
            Ok(b) => ((b as u8).to_string(), Out::Other),
            Err(m) => pan(m),
        },
        Op::Validate => match guarded(|| alloc.validate()) {
            Ok(()) => ("ok".into(), Out::Ok),
            Err(m) => pan(m),
        },
        Op::Handoff | Op::Recover => unreachable!(),
    }
}

// ------------------------------------------------------------------------------------------ world
#[derive(Clone, Copy, Debug, PartialEq)]
struct Blk {
    frame: usize,
    order: usize,
    class: u8,
    local: Option<usize>,
}

/// One history: the allocator(s), what the harness believes is held, and the transcript writer
struct World<'w> {
    w: &'w mut dyn Write,
    cfg: Cfg,
    a: Option<Inst>,
    b: Option<Inst>,
    held: Vec<Blk>,
    /// harness's belief: frame allocated?
    view: Vec<bool>,
    offline: Vec<bool>,
    last_freed: Option<(usize, usize)>,
    prev: String,
    opi: usize,
    dead: bool,
    /// write `ST ~` instead of a dump for ops whose index is not a multiple of this
    st_every: usize,
    /// `prev` is older than the last operation (its dump was omitted)
    stale: bool,
    nops: u64,
}

impl<'w> World<'w> {
    /// Writes `H`, `CFG`, `INIT`, the first `ST`
    fn start(w: &'w mut dyn Write, id: u64, suite: &str, seed: u64, cfg: Cfg) -> World<'w> {
        let layout = check_layout(&cfg);
        writeln!(w, "H {id} suite={suite} seed={seed}").unwrap();
        writeln!(w, "{}", cfg.line()).unwrap();
        if let Some(msg) = &layout {
            writeln!(w, "LAYOUT 0 {msg}").unwrap();
        }
        let init = if cfg.alloc_all { Init::AllocAll } else { Init::FreeAll };
        let mut world = World {
            w,
            held: vec![],
            view: vec![cfg.alloc_all; cfg.frames],
            offline: vec![false; cfg.ntrees()],
            last_freed: None,
            prev: String::new(),
            opi: 0,
            dead: false,
            a: None,
            b: None,
            st_every: 1,
            stale: false,
            nops: 0,
            cfg,
        };
        if layout.is_some() {
            world.dead = true;
            return world;
        }
        match Inst::create(&world.cfg, init) {
            Ok(Ok(inst)) => {
                writeln!(world.w, "INIT => ok").unwrap();
                if let Some(g) = inst.guards() {
                    writeln!(world.w, "CANARY 0 {g}").unwrap();
                }
                let d = dump(&world.cfg, &inst);
                writeln!(world.w, "ST {d}").unwrap();
                world.prev = d;
                world.a = Some(inst);
                if world.cfg.alloc_all {
                    let whole = world.cfg.frames / HUGE_FRAMES;
                    let class = world.cfg.default;
                    for h in 0..whole {
                        world.held.push(Blk { frame: h * HUGE_FRAMES, order: HUGE_ORDER, class, local: None });
                    }
                    for f in whole * HUGE_FRAMES..world.cfg.frames {
                        world.held.push(Blk { frame: f, order: 0, class, local: None });
                    }
                }
            }
            Ok(Err(e)) => {
                writeln!(world.w, "INIT => {}", err_name(e)).unwrap();
                world.dead = true;
            }
            Err(m) => {
                writeln!(world.w, "INIT => panic {m}").unwrap();
                world.dead = true;
            }
        }
        world
    }

    fn finish(self, id: u64) -> u64 {
        writeln!(self.w, "E {id}").unwrap();
        self.nops
    }

    fn ntrees(&self) -> usize {
        self.cfg.ntrees()
    }

    fn any_offline(&self) -> bool {
        self.offline.iter().any(|o| *o)
    }

    fn is_free_view(&self, frame: usize, order: usize) -> bool {
        let end = frame.saturating_add(1 << order);
        end <= self.cfg.frames && self.view[frame..end].iter().all(|a| !*a)
    }
    fn is_alloc_view(&self, frame: usize, order: usize) -> bool {
        let end = frame.saturating_add(1 << order);
        end <= self.cfg.frames && self.view[frame..end].iter().all(|a| *a)
    }

    /// Execute one operation on the allocator(s), write its lines, update the harness's beliefs
    fn exec(&mut self, op: &Op) -> Out {
        if self.dead {
            return Out::Panic;
        }
        self.opi += 1;
        self.nops += 1;
        let i = self.opi;
        let tag = if op.is_query() { "Q" } else { "OP" };
        // a query is only followed by a dump if it changed the buffers
        let qbase = if op.is_query() && self.stale { Some(dump(&self.cfg, self.a.as_ref().unwrap())) } else { None };
        let trees_before: Vec<u32> = {
            let a = self.a.as_ref().unwrap();
            (0..self.ntrees()).map(|t| a.tree_word(t)).collect()
        };
        let mut acc_line: Option<String> = None;
        let (text, outc) = match op {
            Op::Handoff => {
                self.b = None;
                match self.a.as_ref().unwrap().handoff(&self.cfg) {
                    Ok(Ok(inst)) => {
                        self.b = Some(inst);
                        ("ok".to_string(), Out::Ok)
                    }
                    Ok(Err(e)) => (err_name(e).to_string(), Out::Err(e)),
                    Err(m) => (format!("panic {m}"), Out::Panic),
                }
            }
            Op::Recover => {
                self.b = None;
                match self.a.as_ref().unwrap().recover(&self.cfg) {
                    Ok(Ok(inst)) => {
                        self.a = Some(inst);
                        ("ok".to_string(), Out::Ok)
                    }
                    Ok(Err(e)) => (err_name(e).to_string(), Out::Err(e)),
                    Err(m) => (format!("panic {m}"), Out::Panic),
                }
            }
            Op::LowerGet { .. } => {
                // on a throw-away copy: the upper counters of A stay consistent
                match self.a.as_ref().unwrap().handoff(&self.cfg) {
                    Ok(Ok(tmp)) => {
                        let (t, o) = call(&tmp.alloc, op);
                        let mut s = String::new();
                        dump_lower(&mut s, &self.cfg, &tmp.lower);
                        writeln!(self.w, "OP {i} {} => {t}", op.text()).unwrap();
                        writeln!(self.w, "LST {s}").unwrap();
                        if let Some(g) = tmp.guards() {
                            writeln!(self.w, "CANARY {i} copy-{g}").unwrap();
                        }
                        writeln!(self.w, "ST =").unwrap();
                        if o == Out::Panic {
                            self.dead = true;
                        }
                        return o;
                    }
                    Ok(Err(e)) => (err_name(e).to_string(), Out::Err(e)),
                    Err(m) => (format!("panic {m}"), Out::Panic),
                }
            }
            _ => {
                let counting = matches!(op, Op::Stats | Op::StatsAt { .. } | Op::TreeStats | Op::IsFree { .. });
                if counting {
                    use std::sync::atomic::Ordering::Relaxed;
                    let a = self.a.as_ref().unwrap();
                    for (r, b) in [&a.lower, &a.trees, &a.local].iter().enumerate() {
                        ACC_RANGES[2 * r].store(b.ptr() as usize, Relaxed);
                        ACC_RANGES[2 * r + 1].store(b.size, Relaxed);
                    }
                    ACC_LOADS.iter().for_each(|c| c.store(0, Relaxed));
                    ACC_WRITES.store(0, Relaxed);
                    llfree::verif::set_hooks(Some((acc_before, acc_after)));
                }
                let (t, o) = call(&self.a.as_ref().unwrap().alloc, op);
                if counting {
                    use std::sync::atomic::Ordering::Relaxed;
                    llfree::verif::set_hooks(None);
                    acc_line = Some(format!(
                        "ACC {} lower={} trees={} local={} other={} writes={}",
                        self.opi,
                        ACC_LOADS[0].load(Relaxed),
                        ACC_LOADS[1].load(Relaxed),
                        ACC_LOADS[2].load(Relaxed),
                        ACC_LOADS[3].load(Relaxed),
                        ACC_WRITES.load(Relaxed)
                    ));
                }
                if let Some(b) = &self.b {
                    let (tb, _) = call(&b.alloc, op);
                    if tb != t {
                        writeln!(self.w, "HFAIL {i} {} => A [{t}] B [{tb}]", op.text()).unwrap();
                    }
                }
                (t, o)
            }
        };
        writeln!(self.w, "{tag} {i} {} => {text}", op.text()).unwrap();
        if let Some(l) = acc_line {
            writeln!(self.w, "{l}").unwrap();
        }
        let a = self.a.as_ref().unwrap();
        if let Some(g) = a.guards() {
            writeln!(self.w, "CANARY {i} {g}").unwrap();
        }
        if let Some(g) = self.b.as_ref().and_then(|b| b.guards()) {
            writeln!(self.w, "CANARY {i} twin-{g}").unwrap();
        }
        // state dump
        let omit = self.st_every > 1 && !i.is_multiple_of(self.st_every) && outc != Out::Panic && !op.is_query();
        if omit {
            writeln!(self.w, "ST ~").unwrap();
            self.stale = true;
            // the twin is still compared
            if let Some(b) = &self.b {
                let (da, db) = (dump(&self.cfg, a), dump(&self.cfg, b));
                if da != db {
                    writeln!(self.w, "HFAIL {i} buffers differ after {}: A [{da}] B [{db}]", op.text()).unwrap();
                }
            }
        } else {
            let d = dump(&self.cfg, a);
            if let Some(b) = &self.b {
                let db = dump(&self.cfg, b);
                if db != d {
                    writeln!(self.w, "HFAIL {i} buffers differ after {}: A [{d}] B [{db}]", op.text()).unwrap();
                }
                if matches!(op, Op::Handoff) {
                    for q in [Op::Stats, Op::TreeStats] {
                        let (ra, _) = call(&a.alloc, &q);
                        let (rb, _) = call(&b.alloc, &q);
                        if ra != rb {
                            writeln!(self.w, "HFAIL {i} {} after handoff: A [{ra}] B [{rb}]", q.text()).unwrap();
                        }
                    }
                }
            }
            if op.is_query() {
                if d != *qbase.as_ref().unwrap_or(&self.prev) {
                    writeln!(self.w, "ST {d}").unwrap();
                    self.prev = d;
                    self.stale = false;
                }
            } else {
                if d == self.prev {
                    writeln!(self.w, "ST =").unwrap();
                } else {
                    writeln!(self.w, "ST {d}").unwrap();
                    self.prev = d;
                }
                self.stale = false;
            }
        }
        // beliefs
        match (op, &outc) {
            (Op::Get { order, local, .. }, Out::GetOk(f, c)) => {
                let end = f.saturating_add(1 << order).min(self.cfg.frames);
                for x in &mut self.view[(*f).min(end)..end] {
                    *x = true;
                }
                self.held.push(Blk { frame: *f, order: *order, class: *c, local: *local });
            }
            (Op::Put { frame, order, .. }, Out::Ok) => self.freed(*frame, *order),
            (Op::Change { op: Some(on), .. }, Out::Ok) => {
                let a = self.a.as_ref().unwrap();
                for t in 0..self.ntrees() {
                    if a.tree_word(t) != trees_before[t] {
                        self.offline[t] = !*on;
                    }
                }
            }
            (Op::Recover, Out::Ok) => self.offline.iter_mut().for_each(|o| *o = false),
            _ => {}
        }
        // validate() only reads and asserts: its panic (an accounting finding) leaves the allocator usable
        if outc == Out::Panic && !matches!(op, Op::Validate) {
            self.dead = true;
        }
        outc
    }

    /// A free of (frame, order) succeeded: update view and held list (splitting a containing block)
    fn freed(&mut self, frame: usize, order: usize) {
        let end = (frame + (1 << order)).min(self.cfg.frames);
        for x in &mut self.view[frame.min(end)..end] {
            *x = false;
        }
        self.last_freed = Some((frame, order));
        let mut add = vec![];
        self.held.retain(|b| {
            let bend = b.frame + (1 << b.order);
            if b.frame >= frame && bend <= frame + (1 << order) {
                false // inside the freed region
            } else if b.frame <= frame && frame + (1 << order) <= bend {
                // the freed region is a proper part of this block: the buddies stay held
                let mut cur = b.frame;
                let mut o = b.order;
                while o > order {
                    o -= 1;
                    let half = 1usize << o;
                    if frame < cur + half {
                        add.push(Blk { frame: cur + half, order: o, ..*b });
                    } else {
                        add.push(Blk { frame: cur, order: o, ..*b });
                        cur += half;
                    }
                }
                false
            } else {
                true
            }
        });
        self.held.extend(add);
    }
}

// ------------------------------------------------------------------------------------------ random choices
fn pick_order(rng: &mut Rng) -> usize {
    match rng.below(20) {
        0..=7 => 0,
        8..=10 => HUGE_ORDER,
        11 => 7,
        12 => 8.min(TREE_ORDER),
        13 => 6,
        14 => TREE_ORDER,
        _ => rng.range(0, TREE_ORDER + 1),
    }
}

impl World<'_> {
    fn pick_class(&self, rng: &mut Rng) -> u8 {
        if self.cfg.classes.is_empty() { 0 } else { rng.pick(&self.cfg.classes).0 }
    }
    /// None, or an in-range slot of `class`
    fn pick_local(&self, rng: &mut Rng, class: u8) -> Option<usize> {
        match self.cfg.slots(class) {
            Some(n) if n > 0 && !rng.chance(1, 4) => Some(rng.range(0, n)),
            _ => None,
        }
    }
    fn random_aligned(&self, rng: &mut Rng, order: usize) -> usize {
        let n = self.cfg.frames >> order;
        if n == 0 { 0 } else { rng.range(0, n) << order }
    }
    fn free_block(&self, rng: &mut Rng, order: usize) -> Option<usize> {
        for _ in 0..12 {
            let f = self.random_aligned(rng, order);
            if self.is_free_view(f, order) {
                return Some(f);
            }
        }
        // linear scan from a random start
        let n = self.cfg.frames >> order;
        if n == 0 {
            return None;
        }
        let s = rng.range(0, n);
        (0..n).map(|k| ((s + k) % n) << order).find(|f| self.is_free_view(*f, order))
    }

    fn gen_get_any(&self, rng: &mut Rng) -> Op {
        let order = pick_order(rng);
        let class = self.pick_class(rng);
        Op::Get { frame: None, order, class, local: self.pick_local(rng, class) }
    }

    fn gen_get_at(&self, rng: &mut Rng) -> Op {
        let order = pick_order(rng);
        let class = self.pick_class(rng);
        let local = self.pick_local(rng, class);
        let frame = match rng.below(10) {
            0..=3 => self.free_block(rng, order).unwrap_or_else(|| self.random_aligned(rng, order)),
            4 | 5 if !self.held.is_empty() => {
                // a held block (or the aligned block around it)
                let b = *rng.pick(&self.held);
                return Op::Get { frame: Some(b.frame), order: b.order, class, local };
            }
            6 | 7 if !self.held.is_empty() => {
                // partly free: the block of `order` around a held block
                let b = *rng.pick(&self.held);
                (b.frame >> order) << order
            }
            8 if self.any_offline() => {
                let ts: Vec<usize> = (0..self.ntrees()).filter(|t| self.offline[*t]).collect();
                let t = *rng.pick(&ts);
                let o = order.min(TREE_ORDER);
                let per = TREE_FRAMES >> o;
                t * TREE_FRAMES + (rng.range(0, per) << o)
            }
            _ => self.random_aligned(rng, order),
        };
        Op::Get { frame: Some(frame), order, class, local }
    }

    fn gen_put_held(&self, rng: &mut Rng) -> Option<Op> {
        if self.held.is_empty() {
            return None;
        }
        let b = *rng.pick(&self.held);
        let class = if rng.chance(4, 5) && self.cfg.slots(b.class).is_some() { b.class } else { self.pick_class(rng) };
        let local = match rng.below(10) {
            0..=3 if class == b.class && b.local.is_some_and(|l| self.cfg.slots(class).is_some_and(|n| l < n)) => b.local,
            0..=6 => self.pick_local(rng, class),
            _ => None,
        };
        Some(Op::Put { frame: b.frame, order: b.order, class, local })
    }

    fn gen_put_part(&self, rng: &mut Rng) -> Option<Op> {
        let big: Vec<&Blk> = self.held.iter().filter(|b| b.order > 0).collect();
        if big.is_empty() {
            return None;
        }
        let b = **rng.pick(&big);
        let order = match rng.below(4) {
            0 => b.order - 1,
            1 => 0,
            2 if b.order > HUGE_ORDER => HUGE_ORDER,
            _ => rng.range(0, b.order),
        };
        let parts = 1usize << (b.order - order);
        let frame = b.frame + (rng.range(0, parts) << order);
        let class = if self.cfg.slots(b.class).is_some() { b.class } else { self.pick_class(rng) };
        Some(Op::Put { frame, order, class, local: self.pick_local(rng, class) })
    }

    fn gen_put_union(&self, rng: &mut Rng) -> Option<Op> {
        if self.held.is_empty() {
            return None;
        }
        for _ in 0..8 {
            let b = *rng.pick(&self.held);
            let up = 1 + rng.below(2) as usize;
            let order = b.order + up;
            if order > TREE_ORDER {
                continue;
            }
            let frame = (b.frame >> order) << order;
            if self.is_alloc_view(frame, order) || rng.chance(1, 8) {
                let class = if self.cfg.slots(b.class).is_some() { b.class } else { self.pick_class(rng) };
                return Some(Op::Put { frame, order, class, local: self.pick_local(rng, class) });
            }
        }
        None
    }

    fn gen_put_bad(&self, rng: &mut Rng) -> Op {
        let class = self.pick_class(rng);
        let local = self.pick_local(rng, class);
        match rng.below(3) {
            0 if self.last_freed.is_some() => {
                let (frame, order) = self.last_freed.unwrap();
                Op::Put { frame, order, class, local }
            }
            1 if !self.held.is_empty() => {
                // a held block with a too large order
                let b = *rng.pick(&self.held);
                let order = (b.order + 1 + rng.below(2) as usize).min(TREE_ORDER);
                Op::Put { frame: (b.frame >> order) << order, order, class, local }
            }
            _ => {
                // never allocated / free
                let order = pick_order(rng);
                let frame = self.free_block(rng, order).unwrap_or_else(|| self.random_aligned(rng, order));
                Op::Put { frame, order, class, local }
            }
        }
    }

    fn tree_free_view(&self, t: usize) -> bool {
        let lo = t * TREE_FRAMES;
        let hi = ((t + 1) * TREE_FRAMES).min(self.cfg.frames);
        lo < hi && self.view[lo..hi].iter().all(|a| !*a)
    }

    fn gen_change(&self, rng: &mut Rng) -> Op {
        let nt = self.ntrees().max(1);
        let anyclass = |rng: &mut Rng, w: &Self| if rng.chance(1, 2) { Some(w.pick_class(rng)) } else { None };
        match rng.below(20) {
            0..=5 => {
                // offline an entirely free tree by id
                let free: Vec<usize> = (0..self.ntrees()).filter(|t| self.tree_free_view(*t) && !self.offline[*t]).collect();
                let id = if free.is_empty() { rng.range(0, nt) } else { *rng.pick(&free) };
                Op::Change { id: Some(id), mclass: None, mfree: 0, nclass: None, op: Some(false) }
            }
            6..=8 => {
                // offline by match: an entirely free tree of some class
                let mfree = if rng.chance(7, 8) { TREE_FRAMES } else { rng.range(0, TREE_FRAMES + 1) };
                Op::Change { id: None, mclass: anyclass(rng, self), mfree, nclass: None, op: Some(false) }
            }
            9 => {
                // offline any tree (possibly with allocated frames)
                Op::Change { id: Some(rng.range(0, nt)), mclass: None, mfree: 0, nclass: anyclass(rng, self), op: Some(false) }
            }
            10..=13 => {
                let off: Vec<usize> = (0..self.ntrees()).filter(|t| self.offline[*t]).collect();
                let id = if off.is_empty() || rng.chance(1, 6) { rng.range(0, nt) } else { *rng.pick(&off) };
                Op::Change { id: Some(id), mclass: None, mfree: 0, nclass: anyclass(rng, self), op: Some(true) }
            }
            14 => Op::Change { id: None, mclass: anyclass(rng, self), mfree: 0, nclass: anyclass(rng, self), op: Some(true) },
            15 | 16 => {
                // class change by id
                let mfree = if rng.chance(1, 2) { 0 } else { rng.range(0, TREE_FRAMES + 1) };
                Op::Change { id: Some(rng.range(0, nt)), mclass: anyclass(rng, self), mfree, nclass: Some(self.pick_class(rng)), op: None }
            }
            17 | 18 => {
                let mfree = if rng.chance(1, 2) { 0 } else { rng.range(0, TREE_FRAMES + 1) };
                let mclass = if rng.chance(1, 4) { Some(rng.below(8) as u8) } else { anyclass(rng, self) };
                Op::Change { id: None, mclass, mfree, nclass: Some(self.pick_class(rng)), op: None }
            }
            _ => {
                // a tree that does not exist
                let id = *rng.pick(&[self.ntrees(), self.ntrees() + 1, self.ntrees() + 7, 4095]);
                let op = *rng.pick(&[None, Some(true), Some(false)]);
                Op::Change { id: Some(id), mclass: None, mfree: 0, nclass: anyclass(rng, self), op }
            }
        }
    }

    /// A call with arguments that `check` must reject
    fn gen_invalid(&self, rng: &mut Rng) -> Op {
        let class = self.pick_class(rng);
        let local = self.pick_local(rng, class);
        let frames = self.cfg.frames;
        let is_get = rng.chance(1, 2);
        let (frame, order, class) = match rng.below(6) {
            0 => {
                let order = TREE_ORDER + 1 + rng.below(3) as usize;
                (0, order, class)
            }
            1 => {
                // misaligned
                let order = rng.range(1, TREE_ORDER + 1);
                let base = self.random_aligned(rng, order);
                (base + rng.range(1, 1 << order), order, class)
            }
            2 => {
                // beyond the range (aligned)
                let order = pick_order(rng);
                let first = frames.div_ceil(1 << order) << order; // first aligned frame at or after the end
                let lastpart = (frames >> order) << order; // aligned block that crosses the end (if frames unaligned)
                let f = match rng.below(3) {
                    0 => first,
                    1 => lastpart,
                    _ => first + (rng.range(0, 4) << order),
                };
                if f + (1 << order) <= frames { (first, order, class) } else { (f, order, class) }
            }
            3 => {
                // near usize::MAX
                let order = pick_order(rng);
                let f = match rng.below(4) {
                    0 => usize::MAX,
                    1 => usize::MAX - ((1 << order) - 1),
                    2 => (usize::MAX >> order) << order,
                    _ => usize::MAX - rng.range(0, 4096),
                };
                (f, order, class)
            }
            4 => {
                // unconfigured class below 8
                let un: Vec<u8> = (0..8u8).filter(|c| self.cfg.slots(*c).is_none()).collect();
                let order = pick_order(rng);
                let f = self.random_aligned(rng, order);
                if un.is_empty() { (f, TREE_ORDER + 1, class) } else { (f, order, *rng.pick(&un)) }
            }
            _ => {
                let order = pick_order(rng);
                (self.random_aligned(rng, order), order, rng.range(8, 256) as u8)
            }
        };
        if is_get {
            let frame = if rng.chance(1, 5) && order > TREE_ORDER { None } else { Some(frame) };
            Op::Get { frame, order, class, local: if class >= 8 { None } else { local } }
        } else {
            Op::Put { frame, order, class, local: if class >= 8 { None } else { local } }
        }
    }

    fn queries(&mut self, rng: &mut Rng, full: bool) {
        self.exec(&Op::Stats);
        self.exec(&Op::TreeStats);
        if self.cfg.frames == 0 {
            return;
        }
        let n = if full { 3 } else { 1 };
        for _ in 0..n {
            let f = rng.range(0, self.cfg.frames);
            let order = *rng.pick(&[0, 0, HUGE_ORDER, TREE_ORDER, 3]);
            self.exec(&Op::StatsAt { frame: f, order });
            let o = pick_order(rng);
            if (1usize << o) <= self.cfg.frames {
                let fr = self.random_aligned(rng, o);
                if fr + (1 << o) <= self.cfg.frames {
                    self.exec(&Op::IsFree { frame: fr, order: o });
                }
            }
        }
        if !self.any_offline() && (full || rng.chance(1, 2)) {
            self.exec(&Op::Validate);
        }
    }
}

// ------------------------------------------------------------------------------------------ configurations
fn pick_frames(rng: &mut Rng, max_trees: usize) -> usize {
    let tiny = [1usize, 63, 64, 65, 511, 512, 513];
    match rng.below(10) {
        0 => *rng.pick(&tiny),
        1 | 2 => rng.range(1, max_trees + 1) * TREE_FRAMES,
        _ => {
            let k = rng.range(0, max_trees);
            let r = match rng.below(8) {
                0 => *rng.pick(&tiny) % TREE_FRAMES,
                1 => rng.range(0, TREE_HUGE) * HUGE_FRAMES,
                2 => (rng.range(0, TREE_HUGE) * HUGE_FRAMES + 1) % TREE_FRAMES,
                3 => (rng.range(1, TREE_HUGE + 1) * HUGE_FRAMES - 1) % TREE_FRAMES,
                4 => (rng.range(0, TREE_FRAMES / 64) * 64 + rng.range(0, 3)) % TREE_FRAMES,
                _ => rng.range(0, TREE_FRAMES),
            };
            (k * TREE_FRAMES + r).max(1)
        }
    }
}

fn pick_classing(rng: &mut Rng, allow_custom: bool) -> (Pol, Vec<(u8, usize)>, u8) {
    let n = rng.range(1, 4);
    match rng.below(if allow_custom { 10 } else { 8 }) {
        0..=2 => (Pol::Simple, vec![(0, n), (1, n)], 1),
        3 | 4 => (Pol::Movable, vec![(0, n), (1, n), (2, n)], 2),
        5 | 6 => (Pol::Zeroed, vec![(0, n), (1, n), (2, n)], 1),
        7 => match rng.below(4) {
            0 => (Pol::Zeroslot, vec![(0, 0), (1, n)], 1),
            1 => (Pol::Zeroslot, vec![(0, 0), (1, 0)], 1),
            _ => (Pol::Zeroslot, vec![(0, n), (1, 0)], 1),
        },
        _ => {
            let cl = vec![(0, rng.range(1, 4)), (1, rng.range(1, 4)), (2, rng.range(1, 4))];
            (Pol::Custom, cl, rng.below(3) as u8)
        }
    }
}

fn pick_cfg(rng: &mut Rng, max_trees: usize, allow_custom: bool) -> Cfg {
    let (pol, classes, default) = pick_classing(rng, allow_custom);
    Cfg { frames: pick_frames(rng, max_trees), alloc_all: rng.chance(1, 4), default, pol, classes, packed: rng.chance(1, 4) }
}

// ------------------------------------------------------------------------------------------ suites
struct Weights {
    get_any: u64,
    get_at: u64,
    put_held: u64,
    put_part: u64,
    put_union: u64,
    put_bad: u64,
    drain: u64,
    change: u64,
    invalid: u64,
    handoff: u64,
    recover: u64,
}
const W_RANDOM: Weights = Weights {
    get_any: 30, get_at: 12, put_held: 28, put_part: 4, put_union: 2, put_bad: 3, drain: 3, change: 5, invalid: 3, handoff: 0, recover: 0,
};

impl World<'_> {
    /// One weighted random operation; `pressure` > 0 favours allocations, < 0 frees
    fn random_op(&mut self, rng: &mut Rng, w: &Weights, pressure: i32) -> Op {
        let (ga, ph) = match pressure {
            p if p > 0 => (w.get_any * 2, w.put_held / 3),
            p if p < 0 => (w.get_any / 3, w.put_held * 2),
            _ => (w.get_any, w.put_held),
        };
        let table = [ga, w.get_at, ph, w.put_part, w.put_union, w.put_bad, w.drain, w.change, w.invalid, w.handoff, w.recover];
        let total: u64 = table.iter().sum();
        let mut x = rng.below(total);
        let mut k = 0;
        while x >= table[k] {
            x -= table[k];
            k += 1;
        }
        match k {
            0 => self.gen_get_any(rng),
            1 => self.gen_get_at(rng),
            2 => self.gen_put_held(rng).unwrap_or_else(|| self.gen_get_any(rng)),
            3 => self.gen_put_part(rng).unwrap_or_else(|| self.gen_get_any(rng)),
            4 => self.gen_put_union(rng).unwrap_or_else(|| self.gen_put_bad(rng)),
            5 => self.gen_put_bad(rng),
            6 => Op::Drain,
            7 => self.gen_change(rng),
            8 => self.gen_invalid(rng),
            9 => Op::Handoff,
            _ => Op::Recover,
        }
    }

    /// Allocate with a fixed request until an error (or `budget` calls); returns the number of calls
    fn exhaust(&mut self, order: usize, class: u8, local: Option<usize>, budget: usize) -> usize {
        let mut n = 0;
        while n < budget && !self.dead {
            n += 1;
            match self.exec(&Op::Get { frame: None, order, class, local }) {
                Out::GetOk(..) => {}
                _ => break,
            }
        }
        n
    }

    /// Random mixed phase of `ops` operations with queries every `qk` operations
    fn mixed(&mut self, rng: &mut Rng, w: &Weights, ops: usize, qk: usize) {
        let mut pressure = 0i32;
        for k in 0..ops {
            if self.dead {
                return;
            }
            if k % 32 == 0 {
                pressure = rng.below(3) as i32 - 1;
            }
            let op = self.random_op(rng, w, pressure);
            let r = self.exec(&op);
            match op {
                // C10: probe the freshly drained allocator
                Op::Drain if r == Out::Ok && rng.chance(2, 3) => {
                    let class = self.pick_class(rng);
                    let local = self.pick_local(rng, class);
                    let probe = match rng.below(4) {
                        0 | 1 => Op::Get { frame: None, order: 0, class, local },
                        _ => self.gen_get_at(rng),
                    };
                    self.exec(&probe);
                }
                // C05 / C07: statistics right after the rebuild
                Op::Recover | Op::Handoff if r == Out::Ok => self.queries(rng, true),
                _ => {}
            }
            if qk > 0 && k % qk == qk - 1 {
                self.queries(rng, false);
            }
        }
    }
}

impl World<'_> {
    /// Epilogue of a random history (ordinary operations, judged like all others): free every block still held (through
    /// its own slot, another slot or no slot), drain, then probe the drained allocator with a tree-order targeted
    /// allocation of every tree and with base allocations through a slot and without one (C10 after the drain,
    /// C04 / C11 / C14 on the counters the history left behind), free the probes again and validate.
    fn epilogue(&mut self, rng: &mut Rng) {
        let mut budget = 400usize;
        while !self.dead && budget > 0 {
            budget -= 1;
            let Some(b) = self.held.last().copied() else { break };
            let class = if self.cfg.slots(b.class).is_some() { b.class } else { self.pick_class(rng) };
            let local = match rng.below(3) {
                0 if b.local.is_some_and(|l| self.cfg.slots(class).is_some_and(|n| l < n)) => b.local,
                1 => self.pick_local(rng, class),
                _ => None,
            };
            let n = self.held.len();
            self.exec(&Op::Put { frame: b.frame, order: b.order, class, local });
            if self.held.len() >= n {
                break; // the free failed (a finding of another oracle); do not loop
            }
        }
        if self.dead {
            return;
        }
        self.exec(&Op::Drain);
        let tf = 1usize << TREE_ORDER;
        for t in 0..self.ntrees() {
            if self.dead {
                return;
            }
            let class = self.pick_class(rng);
            let (frame, order) = if (t + 1) * tf <= self.cfg.frames { (t * tf, TREE_ORDER) } else { (t * tf, 0) };
            self.exec(&Op::Get { frame: Some(frame), order, class, local: None });
            self.exec(&Op::Drain);
        }
        for k in 0..2 {
            if self.dead {
                return;
            }
            let class = self.pick_class(rng);
            let local = if k == 0 { self.pick_local(rng, class) } else { None };
            self.exec(&Op::Get { frame: None, order: 0, class, local });
            self.exec(&Op::Drain);
        }
        if !self.dead {
            self.queries(rng, true);
            if !self.any_offline() {
                self.exec(&Op::Validate);
            }
        }
    }
}

fn suite_random(w: &mut dyn Write, rng: &mut Rng, id: u64, seed: u64, ops: usize, name: &str, weights: &Weights, max_trees: usize) -> u64 {
    let cfg = pick_cfg(rng, max_trees, name == "random" || name == "args");
    let mut wd = World::start(w, id, name, seed, cfg);
    let qk = 1 + rng.below(5) as usize;
    if !wd.dead {
        wd.queries(rng, true);
    }
    let mut left = ops;
    // optional exhaustion phase at an order that fits the budget
    if !wd.dead && rng.chance(1, 3) && wd.cfg.frames > 0 {
        let mut order = pick_order(rng);
        while order < TREE_ORDER && (wd.cfg.frames >> order) > ops / 2 {
            order += 1;
        }
        let class = wd.pick_class(rng);
        let local = wd.pick_local(rng, class);
        left -= wd.exhaust(order, class, local, ops / 2).min(left);
        if !wd.dead {
            wd.queries(rng, false);
            // free a random subset
            let k = wd.held.len() / 2;
            for _ in 0..k.min(left / 2) {
                if let Some(op) = wd.gen_put_held(rng) {
                    wd.exec(&op);
                    left = left.saturating_sub(1);
                }
            }
        }
    }
    wd.mixed(rng, weights, left, qk);
    if !wd.dead {
        wd.queries(rng, true);
    }
    if !wd.dead && rng.chance(1, 2) {
        wd.epilogue(rng);
    }
    wd.finish(id)
}

// ---- bounded-exhaustive
const NSYM: usize = 15;

fn exhaustive_cfg(k: usize) -> Cfg {
    match k % 4 {
        0 => Cfg { frames: TREE_FRAMES + HUGE_FRAMES + 65, alloc_all: false, default: 1, pol: Pol::Simple, classes: vec![(0, 1), (1, 1)], packed: false },
        1 => Cfg { frames: 2 * TREE_FRAMES, alloc_all: false, default: 1, pol: Pol::Zeroed, classes: vec![(0, 1), (1, 1), (2, 1)], packed: false },
        2 => Cfg { frames: TREE_FRAMES + 70, alloc_all: true, default: 2, pol: Pol::Movable, classes: vec![(0, 1), (1, 1), (2, 1)], packed: false },
        _ => Cfg { frames: 3 * TREE_FRAMES, alloc_all: false, default: 1, pol: Pol::Zeroslot, classes: vec![(0, 1), (1, 0)], packed: false },
    }
}

impl World<'_> {
    /// Resolve an abstract symbol against the current held list (deterministically)
    fn symbol(&self, s: usize) -> Op {
        let huge_class = self.cfg.classes.last().map(|c| c.0).unwrap_or(0);
        let c0 = self.cfg.classes.first().map(|c| c.0).unwrap_or(0);
        let slot = |c: u8| if self.cfg.slots(c).is_some_and(|n| n > 0) { Some(0) } else { None };
        let never = Op::Put { frame: 0, order: 0, class: c0, local: None };
        match s {
            0 => Op::Get { frame: None, order: 0, class: c0, local: slot(c0) },
            1 => Op::Get { frame: None, order: 7.min(TREE_ORDER), class: c0, local: slot(c0) },
            2 => Op::Get { frame: None, order: HUGE_ORDER, class: huge_class, local: slot(huge_class) },
            3 => Op::Get { frame: None, order: TREE_ORDER, class: huge_class, local: slot(huge_class) },
            4 => {
                // the last free base frame
                let f = (0..self.cfg.frames).rev().find(|f| !self.view[*f]).unwrap_or(0);
                Op::Get { frame: Some(f), order: 0, class: c0, local: None }
            }
            5 => match self.held.first() {
                Some(b) => Op::Get { frame: Some(b.frame), order: b.order, class: c0, local: slot(c0) },
                None => Op::Get { frame: Some(0), order: HUGE_ORDER.min(TREE_ORDER), class: huge_class, local: None },
            },
            6 => match self.held.first() {
                Some(b) => Op::Put { frame: b.frame, order: b.order, class: b.class, local: slot(b.class) },
                None => never,
            },
            7 => match self.held.last() {
                Some(b) => Op::Put { frame: b.frame, order: b.order, class: b.class, local: None },
                None => never,
            },
            8 => match self.held.iter().find(|b| b.order > 0) {
                // upper half of the first larger block
                Some(b) => Op::Put { frame: b.frame + (1 << (b.order - 1)), order: b.order - 1, class: b.class, local: None },
                None => never,
            },
            9 => match self.last_freed {
                Some((frame, order)) => Op::Put { frame, order, class: c0, local: slot(c0) },
                None => never,
            },
            10 => Op::Drain,
            11 => Op::Change { id: Some(0), mclass: None, mfree: 0, nclass: None, op: Some(false) },
            12 => Op::Change { id: Some(0), mclass: None, mfree: 0, nclass: None, op: Some(true) },
            // a slot-less targeted request of the lowest class for a block that is held: the tree counter is taken
            // (possibly by demoting another class's reservation) before the lower allocator refuses - the undo paths
            13 => match self.held.first() {
                Some(b) => Op::Get { frame: Some(b.frame), order: b.order, class: c0, local: None },
                None => Op::Get { frame: Some(0), order: 0, class: c0, local: None },
            },
            _ => Op::Put { frame: 1, order: 1, class: c0, local: None },
        }
    }
}

/// All sequences of length `depth` (every shorter one is a prefix) over the abstract alphabet
fn suite_exhaustive(w: &mut dyn Write, depth: usize, configs: usize, shard: (u64, u64), seed: u64) -> (u64, u64) {
    let (mut hist, mut nops) = (0u64, 0u64);
    let total = (NSYM as u64).pow(depth as u32);
    let mut id = 0u64;
    for k in 0..configs {
        for code in 0..total {
            id += 1;
            if id % shard.1 != shard.0 {
                continue;
            }
            let mut wd = World::start(w, id, "exhaustive", seed, exhaustive_cfg(k));
            let mut c = code;
            for _ in 0..depth {
                let op = wd.symbol((c % NSYM as u64) as usize);
                c /= NSYM as u64;
                if wd.dead {
                    break;
                }
                wd.exec(&op);
                wd.exec(&Op::Stats);
                wd.exec(&Op::TreeStats);
            }
            if !wd.dead && !wd.any_offline() {
                wd.exec(&Op::Validate);
            }
            // short epilogue: free what is held (without a slot), drain, targeted tree-order allocation of every whole tree
            // (C10 / C04 on whatever counters the four calls left behind)
            let mut budget = 8;
            while !wd.dead && budget > 0 {
                budget -= 1;
                let Some(b) = wd.held.last().copied() else { break };
                let n = wd.held.len();
                wd.exec(&Op::Put { frame: b.frame, order: b.order, class: b.class, local: None });
                if wd.held.len() >= n {
                    break;
                }
            }
            if !wd.dead {
                wd.exec(&Op::Drain);
                let tf = 1usize << TREE_ORDER;
                for t in 0..wd.ntrees() {
                    if !wd.dead && (t + 1) * tf <= wd.cfg.frames {
                        wd.exec(&Op::Get { frame: Some(t * tf), order: TREE_ORDER, class: wd.cfg.default, local: None });
                    }
                }
                if !wd.dead {
                    wd.exec(&Op::TreeStats);
                }
            }
            hist += 1;
            nops += wd.finish(id);
        }
    }
    (hist, nops)
}

// ---- init (C06)
fn init_counts(from: usize, to: usize, step: usize) -> Vec<usize> {
    let mut v: Vec<usize> = (from..=to).step_by(step.max(1)).collect();
    for unit in [64, HUGE_FRAMES, TREE_FRAMES] {
        let mut m = (from / unit) * unit;
        while m <= to + unit {
            for d in -3i64..=3 {
                let x = m as i64 + d;
                if x >= from as i64 && x <= to as i64 {
                    v.push(x as usize);
                }
            }
            m += unit;
        }
    }
    v.sort_unstable();
    v.dedup();
    v
}

fn suite_init_one(w: &mut dyn Write, rng: &mut Rng, id: u64, seed: u64, frames: usize, alloc_all: bool) -> u64 {
    let (pol, classes, default) = pick_classing(rng, false);
    let cfg = Cfg { frames, alloc_all, default, pol, classes, packed: rng.chance(1, 2) };
    let mut wd = World::start(w, id, "init", seed, cfg);
    if wd.dead {
        return wd.finish(id);
    }
    wd.st_every = if frames <= 600 { 1 } else { 61 };
    wd.queries(rng, true);
    let class = wd.pick_class(rng);
    let local = wd.pick_local(rng, class);
    if !alloc_all {
        // exactly `frames` base allocations succeed
        wd.exhaust(0, class, local, frames + 2);
        wd.queries(rng, false);
        // free all of them (random order of the held list chunks)
        let mut held = wd.held.clone();
        if rng.chance(1, 2) {
            held.reverse();
        }
        for b in held {
            let l = if rng.chance(1, 2) { local } else { None };
            wd.exec(&Op::Put { frame: b.frame, order: b.order, class: b.class, local: l });
        }
    } else {
        // every whole huge frame once at HUGE_ORDER, every other frame once at order 0; a second time fails
        let held = wd.held.clone();
        for (k, b) in held.iter().enumerate() {
            let l = if rng.chance(1, 2) { local } else { None };
            wd.exec(&Op::Put { frame: b.frame, order: b.order, class, local: l });
            if k % 7 == 0 || b.order > 0 {
                wd.exec(&Op::Put { frame: b.frame, order: b.order, class, local: l });
            }
        }
        wd.exec(&Op::Drain);
    }
    wd.st_every = 1;
    if !wd.dead {
        wd.exec(&Op::Drain);
        wd.queries(rng, true);
    }
    wd.finish(id)
}

// ---- pattern (C12)
fn suite_pattern_one(w: &mut dyn Write, rng: &mut Rng, id: u64, seed: u64) -> u64 {
    // one or two trees, possibly a partial last one; the pattern goes into a random tree
    let frames = match rng.below(4) {
        0 => TREE_FRAMES,
        1 => TREE_FRAMES + rng.range(1, TREE_FRAMES),
        2 => rng.range(HUGE_FRAMES.min(TREE_FRAMES - 1), TREE_FRAMES) + 1,
        _ => 2 * TREE_FRAMES,
    };
    let cfg = Cfg { frames, alloc_all: false, default: 1, pol: Pol::Simple, classes: vec![(0, 1), (1, 1)], packed: false };
    let mut wd = World::start(w, id, "pattern", seed, cfg);
    if wd.dead {
        return wd.finish(id);
    }
    let nt = wd.ntrees();
    let tree = rng.range(0, nt);
    let lo = tree * TREE_FRAMES;
    let hi = ((tree + 1) * TREE_FRAMES).min(frames);
    // structured pattern: each aligned sub-block of granularity 2^gran is empty / full / single bit / random
    let gran = rng.range(0, TREE_ORDER + 1);
    wd.st_every = 97;
    let density = rng.below(4);
    let mut f = lo;
    while f < hi && !wd.dead {
        let end = (f + (1 << gran)).min(hi);
        let kind = match density {
            0 => rng.below(4),
            1 => *rng.pick(&[0, 0, 0, 1, 2, 3]),
            2 => *rng.pick(&[1, 1, 1, 0, 2, 3]),
            _ => *rng.pick(&[0, 1, 3, 3]),
        };
        match kind {
            0 => {}
            1 => {
                // full: allocate the block with the largest aligned pieces
                let mut x = f;
                while x < end {
                    let mut o = 0;
                    while o < TREE_ORDER && x.is_multiple_of(1 << (o + 1)) && x + (1 << (o + 1)) <= end {
                        o += 1;
                    }
                    wd.exec(&Op::Get { frame: Some(x), order: o, class: (o >= HUGE_ORDER) as u8, local: None });
                    x += 1 << o;
                }
            }
            2 => {
                let x = rng.range(f, end);
                wd.exec(&Op::Get { frame: Some(x), order: 0, class: 0, local: None });
            }
            _ => {
                let sub = rng.range(0, gran.min(6) + 1);
                let mut x = f;
                while x < end {
                    if rng.chance(1, 2) && x + (1 << sub) <= end {
                        wd.exec(&Op::Get { frame: Some(x), order: sub, class: 0, local: None });
                    }
                    x += 1 << sub;
                }
            }
        }
        f = end;
    }
    wd.st_every = 1;
    if wd.dead {
        return wd.finish(id);
    }
    // make the final state visible (a drain changes nothing in the lower allocator)
    wd.exec(&Op::Drain);
    wd.exec(&Op::Stats);
    let rows_in_tree = (hi - lo).div_ceil(64);
    let row0 = lo / 64;
    let mut hints: Vec<usize> = if rows_in_tree <= 32 {
        (0..rows_in_tree).collect()
    } else {
        let mut v = vec![0, 1, ROWS - 1, ROWS, ROWS + 1, rows_in_tree - 1];
        for _ in 0..10 {
            v.push(rng.range(0, rows_in_tree));
        }
        v.retain(|r| *r < rows_in_tree);
        v.sort_unstable();
        v.dedup();
        v
    };
    if hints.is_empty() {
        hints.push(0);
    }
    for order in 0..=TREE_ORDER {
        for h in &hints {
            if wd.dead {
                break;
            }
            wd.exec(&Op::LowerGet { row: row0 + h, order });
        }
    }
    wd.finish(id)
}

// ---- exhaust (C11)
fn suite_exhaust_one(w: &mut dyn Write, rng: &mut Rng, id: u64, seed: u64) -> u64 {
    let trees = rng.range(2, 5);
    let frames = if rng.chance(1, 3) { trees * TREE_FRAMES } else { (trees - 1) * TREE_FRAMES + rng.range(1, TREE_FRAMES + 1) };
    let cfg = Cfg { frames, alloc_all: false, default: 0, pol: Pol::Simple, classes: vec![(0, 1)], packed: false };
    let mut wd = World::start(w, id, "exhaust", seed, cfg);
    if wd.dead {
        return wd.finish(id);
    }
    wd.st_every = 53;
    wd.exhaust(0, 0, Some(0), frames + 2);
    wd.st_every = 1;
    wd.exec(&Op::Stats);
    for _round in 0..3 {
        if wd.dead || wd.held.is_empty() {
            break;
        }
        // the tree currently reserved by slot 0
        let a = wd.a.as_ref().unwrap();
        let slot = a.local.u64_at(0);
        let res_tree = if slot >> 63 == 1 { Some(((slot & ((1 << 44) - 1)) as usize * 64) / TREE_FRAMES) } else { None };
        let n = match rng.below(4) {
            0 => 1,
            1 => rng.range(1, 4),
            _ => rng.range(1, 200),
        };
        for k in 0..n {
            if wd.held.is_empty() {
                break;
            }
            // boundary case: exactly one frame freed without a slot into the slot's own reserved tree
            let cand: Vec<usize> = match (k, res_tree) {
                (0, Some(t)) if rng.chance(2, 3) => (0..wd.held.len()).filter(|i| wd.held[*i].frame / TREE_FRAMES == t).collect(),
                _ => vec![],
            };
            let idx = if cand.is_empty() { rng.range(0, wd.held.len()) } else { *rng.pick(&cand) };
            let b = wd.held[idx];
            let local = if !cand.is_empty() || rng.chance(1, 2) { None } else { Some(0) };
            wd.exec(&Op::Put { frame: b.frame, order: 0, class: 0, local });
        }
        wd.exec(&Op::Stats);
        wd.exec(&Op::TreeStats);
        // allocate until the allocator reports out of memory
        wd.exhaust(0, 0, Some(0), n + 3);
        wd.exec(&Op::Stats);
    }
    // boundary round: EVERY frame of one tree (the slot's reserved tree, else a random one) is freed - without the slot,
    // through it, or mixed - while all other trees stay full; all of them must be allocatable again through the slot
    if !wd.dead && !wd.held.is_empty() && rng.chance(1, 3) {
        let a = wd.a.as_ref().unwrap();
        let slot = a.local.u64_at(0);
        let res_tree = if slot >> 63 == 1 { Some(((slot & ((1 << 44) - 1)) as usize * 64) / TREE_FRAMES) } else { None };
        let t = match res_tree {
            Some(t) if rng.chance(3, 4) => t,
            _ => wd.held[rng.range(0, wd.held.len())].frame / TREE_FRAMES,
        };
        let mode = rng.below(3);
        let victims: Vec<Blk> = wd.held.iter().copied().filter(|b| b.frame / TREE_FRAMES == t).collect();
        let n = victims.len();
        wd.st_every = 53;
        for (k, b) in victims.iter().enumerate() {
            if wd.dead {
                break;
            }
            let local = match mode {
                0 => None,
                1 => Some(0),
                _ => if k % 2 == 0 { None } else { Some(0) },
            };
            wd.exec(&Op::Put { frame: b.frame, order: 0, class: 0, local });
        }
        wd.st_every = 1;
        if !wd.dead {
            wd.exec(&Op::Stats);
            wd.exec(&Op::TreeStats);
            wd.st_every = 53;
            wd.exhaust(0, 0, Some(0), n + 3);
            wd.st_every = 1;
            wd.exec(&Op::Stats);
        }
    }
    if !wd.dead {
        wd.exec(&Op::Validate);
    }
    wd.finish(id)
}

// ---- offline (C15)
fn suite_offline_one(w: &mut dyn Write, rng: &mut Rng, id: u64, seed: u64, ops: usize) -> u64 {
    let cfg = pick_cfg(rng, 4, false);
    let mut wd = World::start(w, id, "offline", seed, cfg);
    let weights = Weights { get_any: 30, get_at: 16, put_held: 22, put_part: 2, put_union: 1, put_bad: 1, drain: 5, change: 22, invalid: 0, handoff: 0, recover: 0 };
    let mut left = ops;
    while left > 0 && !wd.dead {
        let n = left.min(24);
        wd.mixed(rng, &weights, n, 3);
        left -= n;
        if wd.dead {
            break;
        }
        // probe: offline a free tree, try to allocate from it, bring it online, allocate all of it
        let free: Vec<usize> = (0..wd.ntrees()).filter(|t| wd.tree_free_view(*t) && !wd.offline[*t]).collect();
        if !free.is_empty() && rng.chance(1, 2) {
            let t = *rng.pick(&free);
            wd.exec(&Op::Drain);
            let nclass = if rng.chance(1, 2) { Some(wd.pick_class(rng)) } else { None };
            if wd.exec(&Op::Change { id: Some(t), mclass: None, mfree: 0, nclass: None, op: Some(false) }) == Out::Ok {
                wd.exec(&Op::TreeStats);
                wd.exec(&Op::Stats);
                let c = wd.pick_class(rng);
                let l = wd.pick_local(rng, c);
                wd.exec(&Op::Get { frame: Some(t * TREE_FRAMES), order: 0, class: c, local: l });
                for _ in 0..3 {
                    let op = wd.gen_get_any(rng);
                    wd.exec(&op);
                }
                wd.exec(&Op::Change { id: Some(t), mclass: None, mfree: 0, nclass, op: Some(true) });
                wd.exec(&Op::TreeStats);
                // every frame of it is allocatable again
                let hi = ((t + 1) * TREE_FRAMES).min(wd.cfg.frames);
                let mut f = t * TREE_FRAMES;
                let c = nclass.unwrap_or(c);
                while f < hi && !wd.dead {
                    let mut o = 0;
                    while o < TREE_ORDER && f.is_multiple_of(1 << (o + 1)) && f + (1 << (o + 1)) <= hi {
                        o += 1;
                    }
                    wd.exec(&Op::Get { frame: Some(f), order: o, class: c, local: None });
                    f += 1 << o;
                }
            }
        }
    }
    if !wd.dead {
        wd.queries(rng, true);
    }
    wd.finish(id)
}

// ---- args (C08)
fn suite_args_one(w: &mut dyn Write, rng: &mut Rng, id: u64, seed: u64) -> u64 {
    let cfg = pick_cfg(rng, 3, true);
    let mut wd = World::start(w, id, "args", seed, cfg);
    if wd.dead {
        return wd.finish(id);
    }
    // some state first
    wd.mixed(rng, &W_RANDOM, 20, 0);
    let frames = wd.cfg.frames;
    let classes: Vec<u8> = if id % 8 == 0 { (0..=255u8).collect() } else { (0..10u8).chain([15, 16, 127, 128, 255]).collect() };
    let ok_class = wd.pick_class(rng);
    let mut calls: Vec<(usize, usize, u8)> = vec![];
    for order in 0..=TREE_ORDER + 3 {
        let sz = 1usize << order;
        // frames at and around every boundary
        let mut fs = vec![0, sz, frames.saturating_sub(sz), frames.saturating_sub(1), frames, frames + 1, (frames >> order) << order,
            frames.div_ceil(sz) * sz, usize::MAX, usize::MAX - (sz - 1), usize::MAX - sz, (usize::MAX >> order) << order, usize::MAX / 2 + 1];
        for k in 0..order.min(12) {
            fs.push(((frames / 2) >> order << order) + (1 << k)); // misaligned by 2^k
        }
        if order > 0 {
            fs.push(((frames / 2) >> order << order) + sz - 1);
            fs.push(rng.range(1, sz));
        }
        for f in fs {
            calls.push((f, order, ok_class));
        }
    }
    for order in [64usize, 65, 200, usize::MAX] {
        calls.push((0, order, ok_class));
    }
    for c in classes {
        let o = pick_order(rng);
        calls.push((wd.random_aligned(rng, o), o, c));
    }
    for (f, o, c) in calls {
        if wd.dead {
            break;
        }
        let local = if c < 8 { wd.pick_local(rng, c) } else { None };
        let both = rng.below(3);
        if both != 1 {
            let frame = if rng.chance(1, 6) { None } else { Some(f) };
            wd.exec(&Op::Get { frame, order: o, class: c, local });
        }
        if both != 0 && !wd.dead {
            wd.exec(&Op::Put { frame: f, order: o, class: c, local });
        }
    }
    if !wd.dead {
        wd.queries(rng, true);
    }
    // a slot index beyond the class's slots (not a valid parameter; may panic: ends the history)
    if !wd.dead && rng.chance(1, 3) {
        let c = wd.pick_class(rng);
        let n = wd.cfg.slots(c).unwrap_or(0);
        let local = Some(n + rng.range(0, 3));
        let op = if rng.chance(1, 2) || wd.held.is_empty() {
            Op::Get { frame: None, order: 0, class: c, local }
        } else {
            let b = wd.held[0];
            Op::Put { frame: b.frame, order: b.order, class: c, local }
        };
        wd.exec(&op);
    }
    wd.finish(id)
}

// ---- replay of an explicit operation list
fn suite_replay(w: &mut dyn Write, file: &str) -> (u64, u64) {
    let text = std::fs::read_to_string(file).expect("read --file");
    let mut wd: Option<World> = None;
    let mut id = 1;
    let mut ops: Vec<Op> = vec![];
    let mut cfg: Option<Cfg> = None;
    let mut suite = "replay".to_string();
    for line in text.lines() {
        let t: Vec<&str> = line.split_whitespace().collect();
        match t.first().copied() {
            Some("H") => {
                id = t[1].parse().unwrap_or(1);
                if let Some(s) = t.iter().find_map(|x| x.strip_prefix("suite=")) {
                    suite = s.to_string();
                }
            }
            Some("CFG") => cfg = Some(Cfg::parse(line)),
            Some("OP") | Some("Q") => {
                if let Some(op) = Op::parse(&t[2..]) {
                    ops.push(op)
                }
            }
            _ => {}
        }
    }
    let cfg = cfg.expect("replay file without CFG line");
    let _ = &mut wd;
    let mut world = World::start(w, id, &suite, 0, cfg);
    for op in &ops {
        if world.dead {
            break;
        }
        world.exec(op);
    }
    let n = world.finish(id);
    (1, n)
}

// ------------------------------------------------------------------------------------------ main
fn main() {
    install_hook();
    let args = Args::parse();
    let seed = args.num("seed", 1);
    let suite = args.get("suite").unwrap_or("random").to_string();
    let histories = args.num("histories", 10);
    let ops = args.num("ops", 100) as usize;
    let depth = args.num("depth", 4) as usize;
    let configs = args.num("configs", 2) as usize;
    let shard = {
        let s = args.get("shard").unwrap_or("0/1");
        let (a, b) = s.split_once('/').expect("--shard i/n");
        (a.parse::<u64>().unwrap(), b.parse::<u64>().unwrap().max(1))
    };
    let mut w = out(args.get("out"));
    writeln!(w, "GEOM huge_order={HUGE_ORDER} tree_huge={TREE_HUGE}").unwrap();
    let mut rng = Rng::new(seed.wrapping_mul(0x9e37_79b9).wrapping_add(shard.0));
    let (mut nh, mut nops) = (0u64, 0u64);
    // history ids: unique across shards
    let idof = |k: u64| k * shard.1 + shard.0 + 1;
    match suite.as_str() {
        "replay" => {
            let (h, n) = suite_replay(&mut *w, args.get("file").expect("--file"));
            nh += h;
            nops += n;
        }
        "exhaustive" => {
            let (h, n) = suite_exhaustive(&mut *w, depth, configs, shard, seed);
            nh += h;
            nops += n;
        }
        "init" => {
            let from = args.num("from", 0) as usize;
            let to = args.num("to", 2 * TREE_FRAMES as u64 + 70) as usize;
            let step = args.num("step", 97) as usize;
            let mut counts = init_counts(from, to, step);
            if from == 0 && !counts.contains(&0) {
                counts.insert(0, 0);
            }
            let mut id = 0;
            for frames in counts {
                for alloc_all in [false, true] {
                    id += 1;
                    if id % shard.1 != shard.0 {
                        continue;
                    }
                    nops += suite_init_one(&mut *w, &mut rng, id, seed, frames, alloc_all);
                    nh += 1;
                }
            }
        }
        _ => {
            for k in 0..histories {
                let id = idof(k);
                // every history has its own derived seed so that it can be regenerated alone
                let hseed = seed.wrapping_mul(0x2545_f491_4f6c_dd1d).wrapping_add(id);
                let mut hr = Rng::new(hseed);
                let n = match suite.as_str() {
                    "random" => suite_random(&mut *w, &mut hr, id, hseed, ops, "random", &W_RANDOM, 4),
                    "handoff" => {
                        let wt = Weights { handoff: 4, ..W_RANDOM };
                        suite_random(&mut *w, &mut hr, id, hseed, ops, "handoff", &wt, 4)
                    }
                    "recover" => {
                        let wt = Weights { recover: 4, invalid: 1, ..W_RANDOM };
                        suite_random(&mut *w, &mut hr, id, hseed, ops, "recover", &wt, 4)
                    }
                    "drain" => {
                        let wt = Weights { drain: 25, change: 8, invalid: 0, ..W_RANDOM };
                        suite_random(&mut *w, &mut hr, id, hseed, ops, "drain", &wt, 4)
                    }
                    "pattern" => suite_pattern_one(&mut *w, &mut hr, id, hseed),
                    "exhaust" => suite_exhaust_one(&mut *w, &mut hr, id, hseed),
                    "offline" => suite_offline_one(&mut *w, &mut hr, id, hseed, ops),
                    "args" => suite_args_one(&mut *w, &mut hr, id, hseed),
                    s => panic!("seqrun: unknown suite {s}"),
                };
                nops += n;
                nh += 1;
            }
        }
    }
    w.flush().unwrap();
    let _ = rng.next();
    eprintln!("seqrun: suite={suite} histories={nh} ops={nops}");
}
