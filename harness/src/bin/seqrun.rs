//! Sequential correspondence harness: runs the REAL allocator (`llfree::LLFree`) through seeded random
//! and bounded-exhaustive operation sequences and writes a line transcript that `driver/seq.ml`
//! replays through the extracted Coq model and checks against the extracted specification.
//!
//! Transcript (one history = the lines between `H <id> ...` and `E <id>`):
//!   `GEOM huge_order=<n> tree_huge=<n>`                                    once per file
//!   `H <id> suite=<name> seed=<seed>`
//!   `CFG huge_order=9 tree_huge=4 frames=<n> init=<free|alloc> default=<c> policy=<name> classes=<c>:<n>,...`
//!   `INIT => ok | err init | panic <file>:<line> <msg>`     followed by `ST ...` when ok
//!   `OP <i> get <frame|-> <order> <class> <local|-> => ok <frame> <class> | err mem|arg|init | panic <loc> <msg>`
//!   `OP <i> put <frame> <order> <class> <local|-> => ok | err .. | panic ..`
//!   `OP <i> drain => ok`
//!   `OP <i> change <id|-> <mclass|-> <mfree> <newclass|-> <on|off|-> => ok | err ..`
//!   `OP <i> handoff => ok`      (second allocator over byte copies, Init::None; then every op runs on both)
//!   `OP <i> recover => ok`      (new allocator over a copy of the lower buffer, fresh trees/locals, Init::Recover)
//!   `OP <i> lowerget <row> <order> => ok <frame> | err mem`  on a throw-away copy; followed by `LST ents=.. rows=..`
//!   `Q <i> stats => <free_frames> <free_huge> <free_trees>`
//!   `Q <i> stats_at <frame> <order> => <free_frames> <free_huge> <free_trees>`
//!   `Q <i> tree_stats => <free_frames> <free_trees> <c0free>:<c0alloc>,...(8 classes)`
//!   `Q <i> is_free <frame> <order> => 0|1`
//!   `Q <i> validate => ok | panic ..`
//!   after every OP: `ST trees=<free>/<r>/<class>,... locals=<class>:<p>/<row>/<free>,..;<class>:.. ents=<hex>,.. rows=<bf>,<bf>..`
//!     (`ST =`: identical to the previous dump of this history; `ST ~`: dump omitted; a list without
//!      elements is `-`; a bitfield is `z` (all rows 0), `m` (all rows u64::MAX) or its rows joined by `.`,
//!      each row `z`, `m` or hex).  After a Q an ST line is written only if the query changed the buffers.
//!   `HFAIL <i> <text>`   the handoff twin differs (result, statistics or buffer contents)
//!   `CANARY <i> <buf>`   the guard region around a metadata buffer was modified
//!
//! Replay: `seqrun --suite replay --file <ops>`: a CFG line followed by OP/Q lines (results ignored).
#![allow(clippy::too_many_arguments)]
use std::alloc::{Layout, alloc_zeroed, dealloc};
use std::cell::RefCell;
use std::fmt::Write as FmtWrite;
use std::io::Write;
use std::panic::{AssertUnwindSafe, catch_unwind};

use llfree::{
    Alloc, Class, Classing, Error, FrameId, HUGE_FRAMES, HUGE_ORDER, Init, LLFree, MetaData, Policy,
    PolicyFn, Request, TREE_FRAMES, TREE_HUGE, TREE_ORDER, TreeChange, TreeId, TreeMatch,
    TreeOperation,
};
use llfree_verif_harness::{Args, Rng, out};

// ------------------------------------------------------------------------------------------ panics
thread_local! {
    static LAST_PANIC: RefCell<Option<String>> = const { RefCell::new(None) };
}

fn install_hook() {
    std::panic::set_hook(Box::new(|info| {
        let loc = info
            .location()
            .map(|l| {
                let f = l.file();
                let base = f.rsplit('/').next().unwrap_or(f);
                format!("{}:{}", base, l.line())
            })
            .unwrap_or_else(|| "?:0".into());
        let msg = if let Some(s) = info.payload().downcast_ref::<&str>() {
            (*s).to_string()
        } else if let Some(s) = info.payload().downcast_ref::<String>() {
            s.clone()
        } else {
            "?".to_string()
        };
        let msg: String = msg.chars().map(|c| if c.is_control() { ' ' } else { c }).collect();
        LAST_PANIC.with(|l| *l.borrow_mut() = Some(format!("{loc} {msg}")));
    }));
}

/// Run `f`; a panic becomes `Err("<file>:<line> <message>")`
fn guarded<T>(f: impl FnOnce() -> T) -> Result<T, String> {
    LAST_PANIC.with(|l| *l.borrow_mut() = None);
    match catch_unwind(AssertUnwindSafe(f)) {
        Ok(v) => Ok(v),
        Err(_) => Err(LAST_PANIC
            .with(|l| l.borrow_mut().take())
            .unwrap_or_else(|| "?:0 unknown".into())),
    }
}

// ------------------------------------------------------------------------------------------ buffers
const GUARD: usize = 64;
const GUARD_BYTE: u8 = 0xc5;

/// A 64-byte aligned buffer of exactly `size` usable bytes with a guard region before and after it.
struct Buf {
    raw: *mut u8,
    size: usize,
}
impl Buf {
    fn new(size: usize) -> Self {
        let layout = Layout::from_size_align(size + 2 * GUARD, 64).unwrap();
        let raw = unsafe { alloc_zeroed(layout) };
        assert!(!raw.is_null());
        unsafe {
            std::ptr::write_bytes(raw, GUARD_BYTE, GUARD);
            std::ptr::write_bytes(raw.add(GUARD + size), GUARD_BYTE, GUARD);
        }
        Buf { raw, size }
    }
    fn ptr(&self) -> *mut u8 {
        unsafe { self.raw.add(GUARD) }
    }
    /// The slice handed to the allocator (it keeps it for 'static; we keep the raw pointer)
    fn slice(&self) -> &'static mut [u8] {
        unsafe { std::slice::from_raw_parts_mut(self.ptr(), self.size) }
    }
    fn copy_of(other: &Buf) -> Self {
        let b = Buf::new(other.size);
        unsafe { std::ptr::copy_nonoverlapping(other.ptr(), b.ptr(), other.size) };
        b
    }
    fn guards_ok(&self) -> bool {
        unsafe {
            (0..GUARD).all(|i| self.raw.add(i).read_volatile() == GUARD_BYTE)
                && (0..GUARD).all(|i| self.raw.add(GUARD + self.size + i).read_volatile() == GUARD_BYTE)
        }
    }
    fn u16_at(&self, off: usize) -> u16 {
        assert!(off + 2 <= self.size);
        unsafe { (self.ptr().add(off) as *const u16).read_volatile() }
    }
    fn u32_at(&self, off: usize) -> u32 {
        assert!(off + 4 <= self.size);
        unsafe { (self.ptr().add(off) as *const u32).read_volatile() }
    }
    fn u64_at(&self, off: usize) -> u64 {
        assert!(off + 8 <= self.size);
        unsafe { (self.ptr().add(off) as *const u64).read_volatile() }
    }
}
impl Drop for Buf {
    fn drop(&mut self) {
        let layout = Layout::from_size_align(self.size + 2 * GUARD, 64).unwrap();
        unsafe { dealloc(self.raw, layout) };
    }
}

// ------------------------------------------------------------------------------------------ configuration
#[derive(Clone, Copy, PartialEq, Eq, Debug)]
enum Pol {
    Simple,
    Movable,
    Zeroed,
    Zeroslot,
    Custom,
}
impl Pol {
    fn name(self) -> &'static str {
        match self {
            Pol::Simple => "simple",
            Pol::Movable => "movable",
            Pol::Zeroed => "zeroed",
            Pol::Zeroslot => "zeroslot",
            Pol::Custom => "custom",
        }
    }
    fn parse(s: &str) -> Self {
        match s {
            "simple" => Pol::Simple,
            "movable" => Pol::Movable,
            "zeroed" => Pol::Zeroed,
            "zeroslot" => Pol::Zeroslot,
            "custom" => Pol::Custom,
            _ => panic!("seqrun: unknown policy {s}"),
        }
    }
    fn func(self) -> PolicyFn {
        match self {
            // the nested policy functions of the crate's own classings
            Pol::Simple | Pol::Zeroslot => Classing::simple(1).0.policy,
            Pol::Movable => Classing::movable(1).0.policy,
            Pol::Zeroed => zeroed_policy,
            Pol::Custom => custom_policy,
        }
    }
}

/// eval/tests/integration.rs `zeroed_steals_from_huge`
fn zeroed_policy(requested: Class, target: Class, free: usize) -> Policy {
    if requested.0 > target.0 {
        return Policy::Steal;
    } else if requested.0 < target.0 {
        return Policy::Demote;
    }
    match free {
        f if f >= TREE_FRAMES / 2 => Policy::Match(1),
        f if f >= TREE_FRAMES / 64 => Policy::Match(u8::MAX),
        _ => Policy::Match(0),
    }
}

/// Three classes; requested 0 on target 2 and requested 2 on target 0 are unusable, everything else
/// is rated like the simple policy (Coq: Policies.v `pol_custom`).
fn custom_policy(requested: Class, target: Class, free: usize) -> Policy {
    if (requested.0 == 0 && target.0 == 2) || (requested.0 == 2 && target.0 == 0) {
        return Policy::Invalid;
    }
    zeroed_policy(requested, target, free)
}

#[derive(Clone, Debug)]
struct Cfg {
    frames: usize,
    alloc_all: bool,
    default: u8,
    pol: Pol,
    classes: Vec<(u8, usize)>,
}
impl Cfg {
    fn line(&self) -> String {
        let cl: Vec<String> = self.classes.iter().map(|(c, n)| format!("{c}:{n}")).collect();
        format!(
            "CFG huge_order={} tree_huge={} frames={} init={} default={} policy={} classes={}",
            HUGE_ORDER,
            TREE_HUGE,
            self.frames,
            if self.alloc_all { "alloc" } else { "free" },
            self.default,
            self.pol.name(),
            cl.join(",")
        )
    }
    fn parse(line: &str) -> Cfg {
        let mut c = Cfg { frames: 0, alloc_all: false, default: 0, pol: Pol::Simple, classes: vec![] };
        for kv in line.split_whitespace().skip(1) {
            let (k, v) = kv.split_once('=').expect("CFG key=value");
            match k {
                "huge_order" => assert_eq!(v.parse::<usize>().unwrap(), HUGE_ORDER, "geometry of the replay file"),
                "tree_huge" => assert_eq!(v.parse::<usize>().unwrap(), TREE_HUGE, "geometry of the replay file"),
                "frames" => c.frames = v.parse().unwrap(),
                "init" => c.alloc_all = v == "alloc",
                "default" => c.default = v.parse().unwrap(),
                "policy" => c.pol = Pol::parse(v),
                "classes" => {
                    c.classes = v
                        .split(',')
                        .filter(|e| !e.is_empty())
                        .map(|e| {
                            let (a, b) = e.split_once(':').unwrap();
                            (a.parse().unwrap(), b.parse().unwrap())
                        })
                        .collect()
                }
                _ => {}
            }
        }
        c
    }
    fn classing(&self) -> Classing {
        let cl: Vec<(Class, usize)> = self.classes.iter().map(|&(c, n)| (Class(c), n)).collect();
        Classing::new(&cl, Class(self.default), self.pol.func())
    }
    fn slots(&self, class: u8) -> Option<usize> {
        self.classes.iter().rev().find(|(c, _)| *c == class).map(|(_, n)| *n)
    }
    fn ntrees(&self) -> usize {
        self.frames.div_ceil(TREE_FRAMES)
    }
}

// ------------------------------------------------------------------------------------------ allocator instance
const ROWS: usize = HUGE_FRAMES / 64;
const BF_BYTES: usize = ROWS * 8;
const TABLE_BYTES: usize = (TREE_HUGE * 2).next_multiple_of(64);

struct Inst {
    alloc: LLFree<'static>,
    lower: Buf,
    trees: Buf,
    local: Buf,
}

fn meta_of(lower: &Buf, trees: &Buf, local: &Buf) -> MetaData<'static> {
    MetaData { local: local.slice(), trees: trees.slice(), lower: lower.slice() }
}

/// Layout assumptions of the dump, checked against the crate's own size computation
fn check_layout(cfg: &Cfg) {
    let ms = LLFree::metadata_size(&cfg.classing(), cfg.frames);
    let nbf = cfg.frames.div_ceil(HUGE_FRAMES);
    let ntab = cfg.frames.div_ceil(TREE_FRAMES);
    assert_eq!(ms.lower, nbf * BF_BYTES + ntab * TABLE_BYTES, "lower buffer layout");
    assert_eq!(ms.trees, (ntab * 4).next_multiple_of(64), "trees buffer layout");
    let nslots: usize = cfg.classes.iter().map(|(_, n)| *n).sum();
    assert_eq!(ms.local, nslots * 64, "local buffer layout");
}

impl Inst {
    /// Fresh buffers + `LLFree::new(init)`
    fn create(cfg: &Cfg, init: Init) -> Result<llfree::Result<Inst>, String> {
        let classing = cfg.classing();
        let ms = LLFree::metadata_size(&classing, cfg.frames);
        let (lower, trees, local) = (Buf::new(ms.lower), Buf::new(ms.trees), Buf::new(ms.local));
        Self::over(cfg, init, lower, trees, local)
    }
    fn over(cfg: &Cfg, init: Init, lower: Buf, trees: Buf, local: Buf) -> Result<llfree::Result<Inst>, String> {
        let classing = cfg.classing();
        let meta = meta_of(&lower, &trees, &local);
        let r = guarded(|| LLFree::new(cfg.frames, init, &classing, meta))?;
        Ok(r.map(|alloc| Inst { alloc, lower, trees, local }))
    }
    /// byte copies of all three buffers, `Init::None`
    fn handoff(&self, cfg: &Cfg) -> Result<llfree::Result<Inst>, String> {
        Self::over(cfg, Init::None, Buf::copy_of(&self.lower), Buf::copy_of(&self.trees), Buf::copy_of(&self.local))
    }
    /// copy of the lower buffer only, zeroed trees/locals, `Init::Recover`
    fn recover(&self, cfg: &Cfg) -> Result<llfree::Result<Inst>, String> {
        Self::over(cfg, Init::Recover, Buf::copy_of(&self.lower), Buf::new(self.trees.size), Buf::new(self.local.size))
    }
    fn guards(&self) -> Option<&'static str> {
        if !self.lower.guards_ok() {
            Some("lower")
        } else if !self.trees.guards_ok() {
            Some("trees")
        } else if !self.local.guards_ok() {
            Some("local")
        } else {
            None
        }
    }
    fn tree_word(&self, t: usize) -> u32 {
        self.trees.u32_at(t * 4)
    }
}

fn push_row(s: &mut String, v: u64) {
    if v == 0 {
        s.push('z');
    } else if v == u64::MAX {
        s.push('m');
    } else {
        write!(s, "{v:x}").unwrap();
    }
}

/// `ents=... rows=...` of a lower buffer
fn dump_lower(s: &mut String, cfg: &Cfg, lower: &Buf) {
    let nbf = cfg.frames.div_ceil(HUGE_FRAMES);
    let ntab = cfg.frames.div_ceil(TREE_FRAMES);
    s.push_str("ents=");
    if ntab == 0 {
        s.push('-');
    }
    let tab0 = nbf * BF_BYTES;
    for t in 0..ntab {
        for j in 0..TREE_HUGE {
            if t + j > 0 {
                s.push(',');
            }
            write!(s, "{:x}", lower.u16_at(tab0 + t * TABLE_BYTES + j * 2)).unwrap();
        }
    }
    s.push_str(" rows=");
    if nbf == 0 {
        s.push('-');
    }
    for b in 0..nbf {
        if b > 0 {
            s.push(',');
        }
        let rows: [u64; ROWS] = std::array::from_fn(|r| lower.u64_at(b * BF_BYTES + r * 8));
        if rows.iter().all(|&v| v == 0) {
            s.push('z');
        } else if rows.iter().all(|&v| v == u64::MAX) {
            s.push('m');
        } else {
            for (r, v) in rows.iter().enumerate() {
                if r > 0 {
                    s.push('.');
                }
                push_row(s, *v);
            }
        }
    }
}

/// The decoded content of all three buffers
fn dump(cfg: &Cfg, inst: &Inst) -> String {
    let mut s = String::with_capacity(512);
    let ntab = cfg.ntrees();
    s.push_str("trees=");
    if ntab == 0 {
        s.push('-');
    }
    for t in 0..ntab {
        if t > 0 {
            s.push(',');
        }
        let v = inst.tree_word(t);
        write!(s, "{}/{}/{}", v & 0x0fff_ffff, (v >> 28) & 1, v >> 29).unwrap();
    }
    s.push_str(" locals=");
    if cfg.classes.is_empty() {
        s.push('-');
    }
    let mut off = 0;
    for (i, &(c, n)) in cfg.classes.iter().enumerate() {
        if i > 0 {
            s.push(';');
        }
        write!(s, "{c}:").unwrap();
        for k in 0..n {
            if k > 0 {
                s.push(',');
            }
            let v = inst.local.u64_at(off + k * 64);
            write!(s, "{}/{}/{}", v >> 63, v & ((1u64 << 44) - 1), (v >> 44) & ((1u64 << 19) - 1)).unwrap();
        }
        off += n * 64;
    }
    s.push(' ');
    dump_lower(&mut s, cfg, &inst.lower);
    s
}
