//! Policy / request tie: tabulate the REAL policy functions, request closures and class tables of
//! `Classing::simple(cores)` / `Classing::movable(cores)` (core/src/lib.rs), and the harness's own
//! policies (`policy_by_name` of harness/src/lib.rs: exactly what seqrun runs with), for the comparison
//! with Policies.v / Requests.v by driver `policy`.
//!
//! Transcript:
//!   G <huge_order> <tree_order> <tree_frames>
//!   K <name> <cores> => <c>:<n>,... default <d>          `classing.classes()`, `classing.default`
//!   P <name> <r> <t> <free> => match <n>|demote|steal|invalid|panic
//!        name = simple@<cores> | movable@<cores>  (`(Classing::x(cores).0.policy)(Class(r), Class(t), free)`)
//!             | simple | movable | zeroed | zeroslot | custom   (`policy_by_name(name)`, as run by seqrun)
//!   Q <name> <order> <core> <cores> [<movable 0|1>] => <order> <class> <local|-> | panic
//! Every random choice derives from --seed; `--random <n>` = number of random free counts.
use std::io::Write;
use std::panic::{AssertUnwindSafe, catch_unwind};

use llfree::{Class, Classing, HUGE_ORDER, Policy, PolicyFn, Request, TREE_FRAMES, TREE_ORDER};
use llfree_verif_harness::{Args, POLICY_NAMES, Rng, out, policy_by_name};

fn show_policy(p: Policy) -> String {
    match p {
        Policy::Match(n) => format!("match {n}"),
        Policy::Demote => "demote".into(),
        Policy::Steal => "steal".into(),
        Policy::Invalid => "invalid".into(),
    }
}

fn show_request(r: Request) -> String {
    let local = r.local.map(|l| l.to_string()).unwrap_or_else(|| "-".into());
    format!("{} {} {}", r.order, r.class.0, local)
}

fn sweep_policy(w: &mut dyn Write, name: &str, f: PolicyFn, classes: &[u8], frees: &[usize], cnt: &mut u64) {
    for &r in classes {
        for &t in classes {
            for &free in frees {
                *cnt += 1;
                let res = catch_unwind(AssertUnwindSafe(|| f(Class(r), Class(t), free)))
                    .map(show_policy)
                    .unwrap_or_else(|_| "panic".into());
                writeln!(w, "P {name} {r} {t} {free} => {res}").unwrap();
            }
        }
    }
}

fn show_classing(w: &mut dyn Write, name: &str, cores: usize, c: &Classing) {
    let cl: Vec<String> = c.classes().iter().map(|(c, n)| format!("{}:{}", c.0, n)).collect();
    writeln!(w, "K {name} {cores} => {} default {}", cl.join(","), c.default.0).unwrap();
}

fn main() {
    let args = Args::parse();
    let seed = args.num("seed", 1);
    let random = args.num("random", 24) as usize;
    let max_cores = args.num("cores", 8) as usize;
    let max_core = args.num("core", 20) as usize;
    let mut w = out(args.get("out"));
    let mut rng = Rng::new(seed);
    std::panic::set_hook(Box::new(|_| {}));
    let mut cnt = 0u64;

    writeln!(w, "G {HUGE_ORDER} {TREE_ORDER} {TREE_FRAMES}").unwrap();

    // free counts: the thresholds of the built-in policies and their neighbours, then seeded random ones
    let mut frees = vec![
        0,
        1,
        TREE_FRAMES / 64 - 1,
        TREE_FRAMES / 64,
        TREE_FRAMES / 64 + 1,
        TREE_FRAMES / 2 - 1,
        TREE_FRAMES / 2,
        TREE_FRAMES / 2 + 1,
        TREE_FRAMES - 1,
        TREE_FRAMES,
        TREE_FRAMES + 1,
    ];
    for i in 0..random {
        frees.push(match i % 3 {
            0 => rng.below(TREE_FRAMES as u64 / 64 + 2) as usize,
            1 => rng.below(TREE_FRAMES as u64 / 2 + 2) as usize,
            _ => rng.below(TREE_FRAMES as u64 + 2) as usize,
        });
    }
    let classes: Vec<u8> = (0..=7).collect();

    // ---- the crate's classings, for every core count
    for cores in 1..=max_cores {
        let (simple, simple_req) = Classing::simple(cores);
        let (movable, movable_req) = Classing::movable(cores);
        show_classing(&mut *w, "simple", cores, &simple);
        show_classing(&mut *w, "movable", cores, &movable);
        sweep_policy(&mut *w, &format!("simple@{cores}"), simple.policy, &classes, &frees, &mut cnt);
        sweep_policy(&mut *w, &format!("movable@{cores}"), movable.policy, &classes, &frees, &mut cnt);
        for order in 0..=TREE_ORDER + 1 {
            for core in 0..=max_core {
                cnt += 1;
                let res = catch_unwind(AssertUnwindSafe(|| simple_req(order, core)))
                    .map(show_request)
                    .unwrap_or_else(|_| "panic".into());
                writeln!(w, "Q simple {order} {core} {cores} => {res}").unwrap();
                for mv in [false, true] {
                    cnt += 1;
                    let res = catch_unwind(AssertUnwindSafe(|| movable_req(order, core, mv)))
                        .map(show_request)
                        .unwrap_or_else(|_| "panic".into());
                    writeln!(w, "Q movable {order} {core} {cores} {} => {res}", mv as u8).unwrap();
                }
            }
        }
    }
    // a few large core numbers (slot index = core % cores)
    for cores in [1usize, 3, 8] {
        let (_, simple_req) = Classing::simple(cores);
        let (_, movable_req) = Classing::movable(cores);
        for _ in 0..8 {
            let core = rng.below(1 << 20) as usize;
            let order = rng.below(TREE_ORDER as u64 + 2) as usize;
            cnt += 2;
            writeln!(w, "Q simple {order} {core} {cores} => {}", show_request(simple_req(order, core))).unwrap();
            let mv = rng.chance(1, 2);
            writeln!(w, "Q movable {order} {core} {cores} {} => {}", mv as u8, show_request(movable_req(order, core, mv))).unwrap();
        }
    }

    // ---- the policies seqrun runs with (by `policy=` name)
    for name in POLICY_NAMES {
        sweep_policy(&mut *w, name, policy_by_name(name), &classes, &frees, &mut cnt);
    }
    w.flush().unwrap();
    eprintln!("polrun: lines={cnt}");
}
