//! C23: run the compiled `first_zeros_aligned` on structured and random rows.
//! Output: one line per evaluation: `R <row hex> <order> N` or `R <row hex> <order> S <new hex> <off>`.
use std::io::Write;

use llfree::verif::first_zeros_aligned;
use llfree_verif_harness::{Args, Rng, out};

fn emit(w: &mut dyn Write, v: u64, cnt: &mut u64) {
    for o in 0..=6usize {
        *cnt += 1;
        match first_zeros_aligned(v, o) {
            None => writeln!(w, "R {v:x} {o} N").unwrap(),
            Some((n, off)) => writeln!(w, "R {v:x} {o} S {n:x} {off}").unwrap(),
        }
    }
}

fn main() {
    let args = Args::parse();
    let seed = args.num("seed", 1);
    let random = args.num("random", 10000);
    let mut w = out(args.get("out"));
    let mut rng = Rng::new(seed);
    let mut cnt = 0u64;

    // structured rows
    let mut rows: Vec<u64> = vec![0, u64::MAX, 0xaaaa_aaaa_aaaa_aaaa, 0x5555_5555_5555_5555];
    for o in 0..=6u32 {
        let w_ = 1u32 << o;
        let ones = if w_ == 64 { u64::MAX } else { (1u64 << w_) - 1 };
        let mut p = 0;
        while p < 64 {
            // exactly one free aligned block / exactly one allocated aligned block
            rows.push(!(ones << p));
            rows.push(ones << p);
            // one free block shifted off alignment by 1 (not usable for o > 0)
            rows.push(!(ones << p).rotate_left(1));
            // one free block with a single bit set inside it
            for b in [0, w_ / 2, w_ - 1] {
                rows.push(!(ones << p) | (1u64 << (p + b).min(63)));
            }
            // everything below p allocated
            rows.push(if p == 0 { 0 } else { (1u64 << p) - 1 });
            // everything above p allocated
            rows.push(!(if p == 0 { 0 } else { (1u64 << p) - 1 }));
            p += w_;
        }
    }
    // lane boundary patterns for the zero-in-word trick (borrow propagation)
    for lane in [4u32, 8, 16] {
        let lanes = 64 / lane;
        for k in 0..lanes {
            let mut v = 0u64;
            for j in 0..lanes {
                let val: u64 = if j < k { 1 } else if j == k { 0 } else { 1u64 << (lane - 1) };
                v |= val << (j * lane);
            }
            rows.push(v);
            rows.push(v | (1u64 << 63));
            // lanes holding 0x80.. below a zero lane (marker bit set in v itself)
            let mut v2 = 0u64;
            for j in 0..lanes {
                let val: u64 = if j == k { 0 } else { 1u64 << (lane - 1) };
                v2 |= val << (j * lane);
            }
            rows.push(v2);
            // lanes holding 1 then 0 (borrow chain)
            let mut v3 = 0u64;
            for j in 0..lanes {
                let val: u64 = if j < k { (1u64 << lane) - 1 } else if j == k { 1 } else { 0 };
                v3 |= (val & ((1u64 << lane) - 1)) << (j * lane);
            }
            rows.push(v3);
        }
    }
    for v in &rows {
        emit(&mut *w, *v, &mut cnt);
    }
    let structured = cnt;
    // random rows with varying density
    for _ in 0..random {
        let mut v = rng.next();
        match rng.below(6) {
            0 => v &= rng.next(),
            1 => v |= rng.next(),
            2 => v |= rng.next() | rng.next(),
            3 => {
                // block-structured: each aligned 2^k block all-0, all-1 or random
                let k = rng.below(6) as u32;
                let wd = 1u32 << k;
                let ones = (1u64 << wd) - 1;
                let mut p = 0;
                while p < 64 {
                    match rng.below(3) {
                        0 => v &= !(ones << p),
                        1 => v |= ones << p,
                        _ => {}
                    }
                    p += wd;
                }
            }
            _ => {}
        }
        emit(&mut *w, v, &mut cnt);
    }
    w.flush().unwrap();
    eprintln!("rowrun: structured={structured} total={cnt}");
}
