(* C16 suite `buf`: insertion sequences into the bounded sorted candidate buffer.
   Transcript lines (harness/src/bin/bufrun.rs):  B <cap> <seq> <res>
     <seq>, <res> = key,value;key,value;... or `-` (empty); <res> may be PANIC.
   CORR   : <res> = sb_iter_rev (sb_add_all N.leb cap seq) of the extracted model, pairs compared exactly.
   ORACLE : independent of the model, on keys and membership only:
            |res| = min cap |seq|, keys of res non-increasing, res is a sub-multiset of seq,
            and the keys of res are the min cap |seq| largest keys of seq (OCaml sort). *)
open Model
open Conv
open Dcommon

let parse_pairs s : (int * int) list =
  if s = "-" || s = "" then []
  else
    String.split_on_char ';' s
    |> List.filter (fun e -> e <> "")
    |> List.map (fun e ->
           match String.split_on_char ',' e with
           | [ k; v ] -> (int_of_string k, int_of_string v)
           | _ -> failwith ("buf: bad pair " ^ e))

let show_pairs = function
  | [] -> "-"
  | l -> String.concat ";" (List.map (fun (k, v) -> Printf.sprintf "%d,%d" k v) l)

let show_keys l = "[" ^ String.concat "," (List.map string_of_int l) ^ "]"

let rec take n l = if n <= 0 then [] else match l with [] -> [] | a :: r -> a :: take (n - 1) r

(* multiset inclusion of sorted lists *)
let rec sub_sorted a b =
  match (a, b) with
  | [], _ -> true
  | _, [] -> false
  | x :: a', y :: b' -> if x = y then sub_sorted a' b' else if compare x y > 0 then sub_sorted a b' else false

let rec non_increasing = function a :: (b :: _ as r) -> a >= b && non_increasing r | _ -> true
let rec strictly_ascending = function a :: (b :: _ as r) -> a < b && strictly_ascending r | _ -> true

(* None = fine, Some reason *)
let oracle cap (seq : (int * int) list) (res : (int * int) list) : string option =
  let n = List.length seq in
  let m = min cap n in
  let rkeys = List.map fst res in
  let desc l = List.sort (fun a b -> compare b a) l in
  let top = take m (desc (List.map fst seq)) in
  if List.length res <> m then Some (Printf.sprintf "length=%d expected=%d" (List.length res) m)
  else if not (non_increasing rkeys) then Some "not-best-first"
  else if not (sub_sorted (List.sort compare res) (List.sort compare seq)) then Some "not-a-sub-multiset-of-the-insertions"
  else if desc rkeys <> top then Some ("not-the-top-keys expected_keys=" ^ show_keys top)
  else None

let bucket n = if n <= 2 then 0 else if n <= 4 then 1 else if n <= 8 then 2 else if n <= 16 then 3 else if n <= 32 then 4 else 5
let bucket_names = [| "len0_2"; "len3_4"; "len5_8"; "len9_16"; "len17_32"; "len33_64" |]

let suite_buf file =
  let evals = ref 0 and overflow = ref 0 and unordered = ref 0 and ties = ref 0 and panics = ref 0 and maxlen = ref 0 in
  let caps = Array.make 17 0 and lens = Array.make 6 0 in
  let distinct = Hashtbl.create 200000 in
  iter_lines file (fun line ->
      match split line with
      | "B" :: c :: s :: r :: _ ->
          incr evals;
          let cap = int_of_string c in
          let seq = parse_pairs s in
          let n = List.length seq in
          let keys = List.map fst seq in
          if cap <= 16 then caps.(cap) <- caps.(cap) + 1;
          lens.(bucket n) <- lens.(bucket n) + 1;
          if n > !maxlen then maxlen := n;
          let ov = n > cap and uo = not (strictly_ascending keys) in
          if ov then incr overflow;
          if uo then incr unordered;
          if List.length (List.sort_uniq compare keys) < n then incr ties;
          if ov || uo then begin
            let id = c ^ " " ^ s in
            Hashtbl.replace distinct (if String.length id <= 16 then id else Digest.string id) ()
          end;
          let model =
            sb_iter_rev (sb_add_all N.leb (nat_of_int cap) (List.map (fun (k, v) -> (n_of_int k, n_of_int v)) seq))
            |> List.map (fun (k, v) -> (int_of_n k, int_of_n v))
          in
          if r = "PANIC" then begin
            incr panics;
            report "CORR" (Printf.sprintf "buf cap=%d seq=%s impl=PANIC model=%s" cap s (show_pairs model));
            report "ORACLE" (Printf.sprintf "buf cap=%d seq=%s impl=PANIC violates=panic" cap s)
          end
          else begin
            let res = parse_pairs r in
            if res <> model then report "CORR" (Printf.sprintf "buf cap=%d seq=%s impl=%s model=%s" cap s r (show_pairs model));
            match oracle cap seq res with
            | None -> ()
            | Some why -> report "ORACLE" (Printf.sprintf "buf cap=%d seq=%s impl=%s violates=%s" cap s r why)
          end
      | [] -> ()
      | "#" :: _ -> ()
      | t :: _ when String.length t > 0 && t.[0] = '#' -> ()
      | _ -> failwith ("buf: bad line " ^ line));
  Printf.printf "SUMMARY suite=buf evaluations=%d distinct=%d overflow=%d unordered=%d ties=%d panics=%d maxlen=%d" !evals
    (Hashtbl.length distinct) !overflow !unordered !ties !panics !maxlen;
  Array.iteri (fun i c -> if c > 0 then Printf.printf " cap%d=%d" i c) caps;
  Array.iteri (fun i c -> Printf.printf " %s=%d" bucket_names.(i) c) lens;
  Printf.printf " corr=%d oracle=%d\n" (count "CORR") (count "ORACLE")

let () =
  match Array.to_list Sys.argv with
  | _ :: "buf" :: file :: _ -> suite_buf file
  | _ ->
      prerr_endline "usage: sorted.exe buf <transcript>";
      exit 2
