(* Sequential correspondence driver: replays the transcripts of harness/src/bin/seqrun.rs through the
   extracted model (Lower.v / Upper.v / Policies.v) and checks the implementation's own results and
   buffer dumps against the extracted specification (Spec.v).

   MISMATCH CORR[<component>] <history> op <i>: ...    implementation differs from the model;
       component = result | class | ents | rows | trees | locals | stats | tree_stats
   MISMATCH ORACLE[<Cxx>] <history> op <i>: ...        the implementation's own result or dump violates the
       specification (evaluated without the allocator model)
   After a mismatch the model (resp. the ownership state) is re-synchronised from the implementation's
   dump, so one defect does not cascade through the rest of the history.
   Every mismatch text is `<history id> op <index>: <what> {suite=.. policy=.. frames=.. init=..}`.

   Oracles (tag = property served): C02 ownership (spec_get/put_enabled, abs(dump) = ownership state after every
   call), C04 accounting (lower_invb of the dump, stats / stats_at / is_free / tree_stats.free_frames against the
   ownership state, validate), C05 abs(dump) after a recover, C06 abs(dump) of a fresh allocator and exhaustion in
   suite init, C07 HFAIL lines of the handoff twin, C08 invalid arguments => err arg and no change, C09 no panic
   for valid parameters, C10 gets right after a drain, C11 err mem only when nothing is free (suite exhaust),
   C12 lowerget against a brute-force search, C13 reported class, C14 per-class sums, C15 offline trees, C18
   guard regions around the metadata buffers.
   The ownership state is decomposed by tree (see `spec` below); offline trees are tracked from successful
   change ops (`off_clean`: entirely free when taken offline; `off_dirty`: had allocated frames - the oracles
   that presuppose a clean offline set are skipped while a dirty tree exists, counted as skipped_oracle).
   SUMMARY: evaluations = OP + Q lines replayed, distinct = distinct dumps seen, histogram of calls by result. *)
open Model
open Conv
open Dcommon

(* ------------------------------------------------------------------ small helpers *)
let n_of_udec (s : string) : n =
  if String.length s <= 17 then n_of_int (int_of_string s)
  else n_of_hex (Printf.sprintf "%Lx" (Int64.of_string ("0u" ^ s)))

let nopt s = if s = "-" then None else Some (n_of_udec s)
let max64 = n_of_hex "ffffffffffffffff"
let bump h k = Hashtbl.replace h k (1 + try Hashtbl.find h k with Not_found -> 0)
let starts_with p s = String.length s >= String.length p && String.sub s 0 (String.length p) = p

let site_name = function
  | SUndoFailedAll -> "SUndoFailedAll"
  | SFailedUndoToggle -> "SFailedUndoToggle"
  | SFailedUndoSearch -> "SFailedUndoSearch"
  | SRowOrder -> "SRowOrder"
  | SSetCrosses -> "SSetCrosses"
  | SIndex k -> "SIndex(" ^ dec_of_n k ^ ")"
  | SUndoFailed -> "SUndoFailed"
  | SUndoUnwrap -> "SUndoUnwrap"
  | SIsFreeAssert -> "SIsFreeAssert"
  | SSplitLast -> "SSplitLast"
  | SReserveAllSub -> "SReserveAllSub"
  | SIncFailed -> "SIncFailed"
  | SFailedPartialClear -> "SFailedPartialClear"
  | SExceedingRetries -> "SExceedingRetries"
  | SUnreserveFailed -> "SUnreserveFailed"
  | STreeFree -> "STreeFree"
  | SUnreserveClass -> "SUnreserveClass"
  | SLocalFree -> "SLocalFree"
  | SInvalidClass -> "SInvalidClass"
  | SNoLocals -> "SNoLocals"
  | SArith k -> "SArith(" ^ dec_of_n k ^ ")"
  | SValidate k -> "SValidate(" ^ dec_of_n k ^ ")"
  | SField k -> "SField(" ^ dec_of_n k ^ ")"

let err_name = function EMemory -> "err mem" | EArgument -> "err arg" | EInit -> "err init"

(* result of the model as transcript text; panics only as "panic" (the site is reported separately) *)
let show_res (f : 'a -> string) (r : 'a res) : string =
  match r with Ok a -> f a | Err e -> err_name e | Panic _ -> "panic"

let panic_site = function Panic s -> site_name s | _ -> "-"

(* implementation result text -> kind; "panic <loc> <msg>" -> "panic" *)
let impl_kind (toks : string list) : string =
  match toks with "panic" :: _ -> "panic" | l -> String.concat " " l

(* ------------------------------------------------------------------ per-history state *)
let hid = ref "?"
let suite = ref "?"
let geo = ref { hord = nat_of_int 9; tlog = nat_of_int 2 }
let hord_i = ref 9
let tlog_i = ref 2
let hf_i = ref 512
let tf_i = ref 2048
let polname = ref "simple"
let policy : (n -> n -> n -> pol) ref = ref (fun _ _ _ -> PInvalid)
let frames_n = ref N0
let frames_i = ref 0
let classes : (n * n) list ref = ref []          (* classing order *)
let classes_i : (int * int) list ref = ref []
let dflt = ref N0
let init_alloc = ref false
let alive = ref false                              (* history has a running allocator *)
let model : upper option ref = ref None
(* The ownership state is kept per tree (tree-relative frame numbers): a block of order <= TREE_ORDER
   that is aligned never crosses a tree, so every extracted specification function is applied to the
   tree's own `ospec`; the dump is abstracted tree by tree with the extracted `abs` on the tree's
   entries and bitfields (frames = managed frames of that tree). *)
let ospec0 = { o_frames = N0; o_alloc = N0; o_whole = N0 }
let spec : ospec array ref = ref [||]
let off_clean : (int, unit) Hashtbl.t = Hashtbl.create 7
let off_dirty : (int, unit) Hashtbl.t = Hashtbl.create 7
let drained = ref false

(* the implementation's last dump, per component: text and parsed value *)
let d_trees_s = ref "" and d_locals_s = ref "" and d_ents_s = ref "" and d_rows_s = ref ""
let d_trees : tree list ref = ref []
let d_slots : slot list ref = ref []              (* flat, classing order *)
let d_ents : n list ref = ref []
let d_bfs : n list list ref = ref []
let d_abs : ospec array ref = ref [||]
let d_inv : bool array ref = ref [||]
let d_ents_t : n list array ref = ref [||]
let d_bfs_t : n list list array ref = ref [||]

(* what the ST line after an OP has to check *)
type pending = {
  p_i : string;                 (* op index *)
  p_text : string;              (* the op as written *)
  p_kind : string;              (* get put drain change handoff recover lowerget init *)
  p_invalid : bool;             (* arguments that `check` must reject *)
  p_panic : bool;               (* implementation panicked *)
  p_resync : bool;              (* result mismatch: take the implementation's state *)
  p_change : (n option * n option * n * n option * string * bool) option; (* id mclass mfree nclass op ok *)
}
let pending : pending option ref = ref None
let lowerget_pending : (string * string * n * int * string list * lower option) option ref = ref None

(* ------------------------------------------------------------------ statistics *)
let evals = ref 0
let histories = ref 0
let panics = ref 0
let max_trees = ref 0
let hist_ops : (string, int) Hashtbl.t = Hashtbl.create 101
let orders_seen : (int, unit) Hashtbl.t = Hashtbl.create 31
let distinct : (string, unit) Hashtbl.t = Hashtbl.create 100003
let policies_seen : (string, int) Hashtbl.t = Hashtbl.create 7
let skipped_oracle = ref 0

(* optional profiling: SEQ_PROF=1 prints the time spent per part to stderr *)
let prof = Sys.getenv_opt "SEQ_PROF" <> None
let prof_t : (string, float) Hashtbl.t = Hashtbl.create 17
let timed name f =
  if not prof then f ()
  else begin
    let t0 = Sys.time () in
    let r = f () in
    let d = Sys.time () -. t0 in
    Hashtbl.replace prof_t name (d +. try Hashtbl.find prof_t name with Not_found -> 0.);
    r
  end

let where i = Printf.sprintf "%s op %s:" !hid i
let notes = ref 0
let note text = incr notes; if !notes <= 40 then print_endline ("NOTE " ^ text)
(* every mismatch names the configuration: clients filter on it (e.g. C09 excludes policy=custom) *)
let ctx_tag () = Printf.sprintf "{suite=%s policy=%s frames=%d init=%s}" !suite !polname !frames_i (if !init_alloc then "alloc" else "free")
let corr comp i text = report (Printf.sprintf "CORR[%s]" comp) (Printf.sprintf "%s %s %s" (where i) text (ctx_tag ()))
let oracle prop i text = report (Printf.sprintf "ORACLE[%s]" prop) (Printf.sprintf "%s %s %s" (where i) text (ctx_tag ()))

(* ------------------------------------------------------------------ dump parsing *)
let bf_cache : (string, n list) Hashtbl.t = Hashtbl.create 4096
let rows_zero = ref [] and rows_max = ref []

let parse_row s = if s = "z" then N0 else if s = "m" then max64 else n_of_hex s

let parse_bf (s : string) : n list =
  if s = "z" then !rows_zero
  else if s = "m" then !rows_max
  else
    match Hashtbl.find_opt bf_cache s with
    | Some l -> l
    | None ->
        let l = List.map parse_row (String.split_on_char '.' s) in
        if Hashtbl.length bf_cache > 200000 then Hashtbl.reset bf_cache;
        Hashtbl.replace bf_cache s l;
        l

let parse_list f s = if s = "-" || s = "" then [] else List.map f (String.split_on_char ',' s)

let parse_tree s =
  match String.split_on_char '/' s with
  | [ f; r; c ] -> { t_free = n_of_udec f; t_res = r = "1"; t_class = n_of_udec c }
  | _ -> failwith ("bad tree " ^ s)

let parse_slot s =
  match String.split_on_char '/' s with
  | [ p; r; f ] -> { s_pres = p = "1"; s_row = n_of_udec r; s_free = n_of_udec f }
  | _ -> failwith ("bad slot " ^ s)

let parse_locals s : slot list =
  if s = "-" then []
  else
    List.concat_map
      (fun cl ->
        match String.index_opt cl ':' with
        | Some k -> parse_list parse_slot (String.sub cl (k + 1) (String.length cl - k - 1))
        | None -> failwith ("bad locals " ^ cl))
      (String.split_on_char ';' s)

let field prefix tok =
  if starts_with prefix tok then String.sub tok (String.length prefix) (String.length tok - String.length prefix)
  else failwith ("expected " ^ prefix ^ " in " ^ tok)

(* model locals (indexed by class id) from the flat slot list in classing order *)
let locals_of_slots (slots : slot list) : slot list option list =
  let arr = Array.make 8 None in
  let rest = ref slots in
  List.iter
    (fun (c, k) ->
      let rec take k l acc = if k = 0 then (List.rev acc, l) else match l with [] -> (List.rev acc, []) | x :: r -> take (k - 1) r (x :: acc) in
      let mine, r = take k !rest [] in
      rest := r;
      if c < 8 then arr.(c) <- Some mine)
    !classes_i;
  Array.to_list arr

let slots_of_locals (ls : slot list option list) : slot list =
  List.concat_map (fun (c, _) -> match List.nth_opt ls c with Some (Some l) -> l | _ -> []) !classes_i

let dump_lower () : lower = { frames = !frames_n; bfs = !d_bfs; ents = !d_ents }

let upper_of_dump () : upper =
  { low = dump_lower (); trees = !d_trees; locals = locals_of_slots !d_slots; dflt = !dflt }

(* ------------------------------------------------------------------ specification helpers *)
let pow2i k = 1 lsl k
let tord_i () = !hord_i + !tlog_i

let tree_managed t = max 0 (min !frames_i ((t + 1) * !tf_i) - (t * !tf_i))
let ntrees_i () = (!frames_i + !tf_i - 1) / !tf_i
let sp_of (sp : ospec array) t = if t >= 0 && t < Array.length sp then sp.(t) else ospec0
let sp_with (sp : ospec array) t (s : ospec) = let a = Array.copy sp in a.(t) <- s; a
let rel f = n_of_int (f mod !tf_i)

(* allocated frames of a tree's ownership state inside the tree-relative range [a, a+len) *)
let alloc_in (s : ospec) (a : int) (len : int) : int =
  if len <= 0 then 0 else int_of_n (popcount (N.coq_land s.o_alloc (blk (n_of_int a) (n_of_int len))))

(* free managed frames inside the absolute range [a, b), which lies within one tree *)
let free_in (sp : ospec array) (a : int) (b : int) : int =
  let t = a / !tf_i in
  let s = sp_of sp t in
  let hi = min (b - t * !tf_i) (int_of_n s.o_frames) and lo = a - t * !tf_i in
  if hi <= lo then 0 else hi - lo - alloc_in s lo (hi - lo)

let tree_free_spec (sp : ospec array) t = int_of_n (exact_free (sp_of sp t))
let total_free (sp : ospec array) = Array.fold_left (fun a s -> a + int_of_n (exact_free s)) 0 sp

let any_dirty () = Hashtbl.length off_dirty > 0
let free_outside_offline sp =
  Hashtbl.fold (fun t () acc -> acc - tree_free_spec sp t) off_clean (total_free sp)

(* ------------------------------------------------------------------ state comparison (ST lines) *)
let show_tree t = Printf.sprintf "%s/%d/%s" (dec_of_n t.t_free) (if t.t_res then 1 else 0) (dec_of_n t.t_class)
let show_slot s = Printf.sprintf "%d/%s/%s" (if s.s_pres then 1 else 0) (dec_of_n s.s_row) (dec_of_n s.s_free)
let show_list f l = if l = [] then "-" else String.concat "," (List.map f l)
let show_rowv v = if v = N0 then "z" else if v = max64 then "m" else hex_of_n v
let show_bf rows =
  if rows <> [] && List.for_all (fun v -> v = N0) rows then "z"
  else if rows <> [] && List.for_all (fun v -> v = max64) rows then "m"
  else String.concat "." (List.map show_rowv rows)

(* first differing index of two lists, with both elements shown *)
let first_diff show a b =
  let rec go i a b =
    match (a, b) with
    | [], [] -> "equal"
    | x :: a', y :: b' -> if x = y then go (i + 1) a' b' else Printf.sprintf "index %d impl=%s model=%s" i (show x) (show y)
    | x :: _, [] -> Printf.sprintf "index %d impl=%s model=<none> (model list shorter)" i (show x)
    | [], y :: _ -> Printf.sprintf "index %d impl=<none> model=%s (impl list shorter)" i (show y)
  in
  go 0 a b

let spec_show (s : ospec) = Printf.sprintf "alloc=%s whole=%s" (hex_of_n s.o_alloc) (hex_of_n s.o_whole)

(* where two bitsets differ: lowest differing bit *)
let bitset_diff (a : n) (b : n) : string =
  let x = N.coq_lxor a b in
  match x with
  | N0 -> "equal"
  | _ ->
      let rec tz bits i = match bits with [] -> i | 0 :: r -> tz r (i + 1) | _ -> i in
      let lo = tz (bits_of_n x) 0 in
      Printf.sprintf "lowest differing frame %d (dump says %s, ownership model says %s; %d frames differ)" lo
        (if N.testbit a (n_of_int lo) then "allocated" else "free")
        (if N.testbit b (n_of_int lo) then "allocated" else "free")
        (int_of_n (popcount x))

let chunks k l =
  let rec go l cur n acc =
    match l with
    | [] -> List.rev (if cur = [] then acc else List.rev cur :: acc)
    | x :: r -> if n + 1 = k then go r [] 0 (List.rev (x :: cur) :: acc) else go r (x :: cur) (n + 1) acc
  in
  go l [] 0 []

(* abstraction and well-formedness of one tree's part of a dump *)
let abs_tree t ents bfs =
  let l = { frames = n_of_int (tree_managed t); bfs; ents } in
  (timed "abs" (fun () -> abs !geo l), timed "invb" (fun () -> lower_invb !geo l))

let split_dump ents bfs =
  let nt = ntrees_i () and th = 1 lsl !tlog_i in
  let ec = Array.of_list (chunks th ents) and bc = Array.of_list (chunks th bfs) in
  if Array.length ec <> nt || Array.length bc > nt then None
  else Some (ec, Array.init nt (fun t -> if t < Array.length bc then bc.(t) else []))

let recompute_abs () =
  let nt = ntrees_i () in
  match split_dump !d_ents !d_bfs with
  | None ->
      d_abs := Array.make nt ospec0;
      d_inv := Array.make nt false;
      d_ents_t := [||];
      d_bfs_t := [||]
  | Some (ec, bc) ->
      let fresh = Array.length !d_abs <> nt || Array.length !d_ents_t <> nt in
      let na = Array.make nt ospec0 and ni = Array.make nt true in
      for t = 0 to nt - 1 do
        if (not fresh) && !d_ents_t.(t) = ec.(t) && !d_bfs_t.(t) = bc.(t) then (na.(t) <- !d_abs.(t); ni.(t) <- !d_inv.(t))
        else begin
          let a, i = abs_tree t ec.(t) bc.(t) in
          na.(t) <- a;
          ni.(t) <- i
        end
      done;
      d_abs := na;
      d_inv := ni;
      d_ents_t := ec;
      d_bfs_t := bc

(* parse an `ST`/`LST` body into the d_* variables; returns (lower_changed, trees_before) *)
let take_dump (toks : string list) : bool * tree list =
  let before = !d_trees in
  match toks with
  | [ t; l; e; r ] ->
      let t = field "trees=" t and l = field "locals=" l and e = field "ents=" e and r = field "rows=" r in
      if t <> !d_trees_s then (d_trees_s := t; d_trees := parse_list parse_tree t);
      if l <> !d_locals_s then (d_locals_s := l; d_slots := parse_locals l);
      let ch = ref false in
      if e <> !d_ents_s then (d_ents_s := e; d_ents := parse_list (fun x -> n_of_hex x) e; ch := true);
      if r <> !d_rows_s then (d_rows_s := r; d_bfs := parse_list parse_bf r; ch := true);
      (!ch, before)
  | _ -> failwith "bad ST line"

let compare_state (i : string) (what : string) : bool =
  match !model with
  | None -> true
  | Some u ->
      let ok = ref true in
      if u.low.ents <> !d_ents then (
        ok := false;
        corr "ents" i (Printf.sprintf "after %s: %s" what (first_diff hex_of_n !d_ents u.low.ents)));
      if u.low.bfs <> !d_bfs then (
        ok := false;
        corr "rows" i (Printf.sprintf "after %s: bitfield %s" what (first_diff show_bf !d_bfs u.low.bfs)));
      if u.trees <> !d_trees then (
        ok := false;
        corr "trees" i (Printf.sprintf "after %s: tree %s" what (first_diff show_tree !d_trees u.trees)));
      let ms = slots_of_locals u.locals in
      if ms <> !d_slots then (
        ok := false;
        corr "locals" i (Printf.sprintf "after %s: slot %s (flat index in classing order)" what (first_diff show_slot !d_slots ms)));
      !ok

let resync_model () = model := Some (upper_of_dump ())

let tree_idx_changes (before : tree list) (after : tree list) : int list =
  let rec go i a b acc =
    match (a, b) with x :: a', y :: b' -> go (i + 1) a' b' (if x = y then acc else i :: acc) | _ -> List.rev acc
  in
  go 0 before after []

(* C15 bookkeeping and checks for a change op, evaluated when its dump is known.
   `sp` = ownership state (unchanged by a change op). *)
let check_change (p : pending) (before : tree list) =
  match p.p_change with
  | None -> ()
  | Some (id, mclass, mfree, nclass, op, ok) ->
      let after = !d_trees in
      let changed = tree_idx_changes before after in
      let matches (t : tree) =
        (not t.t_res) && (match mclass with None -> true | Some c -> c = t.t_class) && N.leb mfree t.t_free
      in
      if not ok then begin
        if changed <> [] then oracle "C15" p.p_i (Printf.sprintf "%s failed but changed tree(s) %s" p.p_text (String.concat "," (List.map string_of_int changed)));
        (* offline of an unreserved, entirely free tree by id must succeed *)
        match (id, op) with
        | Some idn, "off" when N.ltb idn (n_of_int (List.length before)) ->
            let t = int_of_n idn in
            let tr = List.nth before t in
            if matches tr && tree_managed t > 0 && tree_free_spec !spec t = tree_managed t && not (Hashtbl.mem off_clean t || Hashtbl.mem off_dirty t)
            then oracle "C15" p.p_i (Printf.sprintf "%s: offline of the unreserved entirely free tree %d (%s) failed" p.p_text t (show_tree tr))
        | _ -> ()
      end
      else begin
        (match changed with
        | [] | [ _ ] -> ()
        | l -> oracle "C15" p.p_i (Printf.sprintf "%s changed %d trees" p.p_text (List.length l)));
        let target = match (id, changed) with Some idn, _ -> Some (int_of_n idn) | None, [ t ] -> Some t | _ -> None in
        (match (id, changed) with
        | Some idn, [ t ] when int_of_n idn <> t -> oracle "C15" p.p_i (Printf.sprintf "%s changed tree %d" p.p_text t)
        | _ -> ());
        match target with
        | None -> ()
        | Some t when t >= List.length before -> oracle "C15" p.p_i (Printf.sprintf "%s succeeded for a tree that does not exist" p.p_text)
        | Some t ->
            let b = List.nth before t and a = List.nth after t in
            if not (matches b) then
              oracle "C15" p.p_i (Printf.sprintf "%s applied to tree %d = %s which is reserved or does not match" p.p_text t (show_tree b));
            (match nclass with
            | Some c when a.t_class <> c -> oracle "C15" p.p_i (Printf.sprintf "%s: tree %d has class %s afterwards" p.p_text t (dec_of_n a.t_class))
            | _ -> ());
            if op = "off" then begin
              if a.t_free <> N0 then oracle "C15" p.p_i (Printf.sprintf "%s: tree %d counter %s after offline" p.p_text t (dec_of_n a.t_free));
              if not (Hashtbl.mem off_clean t || Hashtbl.mem off_dirty t) then
                if tree_free_spec !spec t = tree_managed t then Hashtbl.replace off_clean t () else Hashtbl.replace off_dirty t ()
            end
            else if op = "on" then begin
              (* exact accounting: counter = free frames of the tree *)
              let f = tree_free_spec !spec t in
              if int_of_n a.t_free <> f then
                oracle "C15" p.p_i (Printf.sprintf "%s: tree %d counter %s after online, %d of its frames are free" p.p_text t (dec_of_n a.t_free) f);
              Hashtbl.remove off_clean t;
              Hashtbl.remove off_dirty t
            end
      end

let handle_st (toks : string list) (raw : string) =
  match !pending with
  | None ->
      (* a dump after a query: the query changed the buffers *)
      (match toks with
      | [ "=" ] | [ "~" ] -> ()
      | _ ->
          let ch, _ = take_dump toks in
          if ch then recompute_abs ();
          ignore (compare_state "?" "a query (queries must not change the buffers)");
          oracle "C04" "?" "a query changed the metadata buffers";
          resync_model ())
  | Some p ->
      pending := None;
      (match toks with
      | [ "~" ] -> ()
      | _ when p.p_panic -> (
          (* the state after a panic is not compared; keep the dump for the record *)
          match toks with [ "=" ] -> () | _ -> ignore (take_dump toks))
      | _ ->
          let unchanged = toks = [ "=" ] in
          let lower_changed, before = if unchanged then (false, !d_trees) else take_dump toks in
          if not unchanged then Hashtbl.replace distinct (Digest.string raw) ();
          if lower_changed then recompute_abs ();
          (* correspondence *)
          let same = compare_state p.p_i p.p_text in
          if (not same) || p.p_resync then resync_model ();
          (* C08: rejected calls change nothing *)
          if p.p_invalid && not unchanged then oracle "C08" p.p_i (Printf.sprintf "%s (invalid arguments) changed the metadata" p.p_text);
          (* ownership: the dump must describe exactly the ownership state *)
          if !d_abs <> !spec then begin
            let tag = if p.p_kind = "init" then "C06" else if p.p_kind = "recover" then "C05" else "C02" in
            Array.iteri
              (fun t a ->
                let s = sp_of !spec t in
                if a <> s then
                  oracle tag p.p_i
                    (Printf.sprintf "after %s: allocation status of tree %d differs (frames relative to the tree start %d): %s%s" p.p_text t (t * !tf_i)
                       (bitset_diff a.o_alloc s.o_alloc)
                       (if a.o_whole <> s.o_whole then "; whole-huge flags differ: " ^ bitset_diff a.o_whole s.o_whole else "")))
              !d_abs;
            spec := !d_abs
          end;
          Array.iteri
            (fun t ok -> if not ok then oracle "C04" p.p_i (Printf.sprintf "after %s: counters/bitfields of tree %d are inconsistent (lower_invb = false)" p.p_text t))
            !d_inv;
          check_change p before)

(* ------------------------------------------------------------------ history setup *)
let pol_index = function "simple" -> 0 | "movable" -> 1 | "zeroed" -> 2 | "zeroslot" -> 3 | "custom" -> 4 | s -> failwith ("unknown policy " ^ s)

let set_geometry ho th =
  let tl = let rec lg x = if x <= 1 then 0 else 1 + lg (x / 2) in lg th in
  hord_i := ho;
  tlog_i := tl;
  geo := { hord = nat_of_int ho; tlog = nat_of_int tl };
  hf_i := 1 lsl ho;
  tf_i := (1 lsl ho) * th;
  rows_zero := List.init (!hf_i / 64) (fun _ -> N0);
  rows_max := List.init (!hf_i / 64) (fun _ -> max64);
  Hashtbl.reset bf_cache

let kv tok = match String.index_opt tok '=' with Some k -> (String.sub tok 0 k, String.sub tok (k + 1) (String.length tok - k - 1)) | None -> (tok, "")

(* ACC <i> lower=<n> trees=<n> local=<n> other=<n> writes=<n>: hooked atomic loads of the query that precedes the line.
   C18 (atomic-read discipline): stats() reads every huge entry, tree_stats() every tree entry and every slot, stats_at /
   is_free at least one word of the lower buffer - through atomic loads; fewer hooked loads mean plain reads of shared
   metadata (a data race with concurrent get/put); a query never writes. *)
let last_query : string ref = ref ""
let acc_checked = ref 0
let handle_acc (toks : string list) =
  match toks with
  | i :: rest ->
      let get k = try int_of_string (List.assoc k (List.map kv rest)) with Not_found -> 0 in
      let lower = get "lower" and trees = get "trees" and local = get "local" and writes = get "writes" in
      let ntab = ntrees_i () in
      let th = 1 lsl !tlog_i in
      let nslots = List.fold_left (fun a (_, n) -> a + n) 0 !classes_i in
      incr acc_checked;
      let bad msg = oracle "C18" i (Printf.sprintf "%s: %s (hooked atomic loads: lower=%d trees=%d local=%d, atomic writes=%d)" !last_query msg lower trees local writes) in
      if writes > 0 then bad "a query performed an atomic write"
      else (
        match String.split_on_char ' ' !last_query with
        | "stats" :: _ -> if lower < ntab * th then bad (Printf.sprintf "stats() read fewer than the %d huge entries atomically" (ntab * th))
        | "tree_stats" :: _ ->
            if trees < ntab then bad (Printf.sprintf "tree_stats() read fewer than the %d tree entries atomically" ntab)
            else if local < nslots then bad (Printf.sprintf "tree_stats() read fewer than the %d local slots atomically" nslots)
        | ("stats_at" | "is_free") :: _ -> ()
        | _ -> ())
  | [] -> ()

let handle_cfg (toks : string list) =
  let ho = ref !hord_i and th = ref (1 lsl !tlog_i) in
  List.iter
    (fun tok ->
      let k, v = kv tok in
      match k with
      | "huge_order" -> ho := int_of_string v
      | "tree_huge" -> th := int_of_string v
      | "frames" -> frames_n := n_of_udec v; frames_i := int_of_string v
      | "init" -> init_alloc := v = "alloc"
      | "default" -> dflt := n_of_udec v
      | "policy" -> polname := v
      | "classes" ->
          classes_i := (if v = "" then [] else List.map (fun e -> match String.split_on_char ':' e with [ a; b ] -> (int_of_string a, int_of_string b) | _ -> failwith "classes") (String.split_on_char ',' v));
          classes := List.map (fun (a, b) -> (n_of_int a, n_of_int b)) !classes_i
      | _ -> ())
    toks;
  if !ho <> !hord_i || !th <> 1 lsl !tlog_i then set_geometry !ho !th;
  policy := pol_select (n_of_int (pol_index !polname)) (tF !geo);
  bump policies_seen !polname;
  max_trees := max !max_trees (ntrees_i ());
  Hashtbl.reset off_clean;
  Hashtbl.reset off_dirty;
  drained := false;
  pending := None;
  lowerget_pending := None;
  model := None;
  alive := false;
  d_trees_s := "\000"; d_locals_s := "\000"; d_ents_s := "\000"; d_rows_s := "\000";
  d_trees := []; d_slots := []; d_ents := []; d_bfs := [];
  (* ownership state a fresh allocator must have (C06) *)
  d_abs := [||]; d_inv := [||]; d_ents_t := [||]; d_bfs_t := [||];
  spec :=
    Array.init (ntrees_i ()) (fun t ->
        let m = tree_managed t in
        if !init_alloc then { o_frames = n_of_int m; o_alloc = N.ones (n_of_int m); o_whole = N.ones (n_of_int (m / !hf_i)) }
        else { o_frames = n_of_int m; o_alloc = N0; o_whole = N0 })

let nslots () = List.fold_left (fun a (_, k) -> a + k) 0 !classes_i
let empty_slots () = List.init (nslots ()) (fun _ -> { s_pres = false; s_row = N0; s_free = N0 })
let empty_lower () = { frames = !frames_n; bfs = []; ents = [] }

let handle_init (res : string list) =
  incr histories;
  let m = llfree_new !geo !frames_n (if !init_alloc then IAllocAll else IFreeAll) !classes !dflt (empty_lower ()) [] (empty_slots ()) in
  let mk = show_res (fun _ -> "ok") m in
  let ik = impl_kind res in
  bump hist_ops ("init_" ^ (match ik with "ok" -> "ok" | "panic" -> "panic" | _ -> "err"));
  if ik = "panic" then (
    incr panics;
    oracle "C09" "init" (Printf.sprintf "construction panicked: frames=%d init=%s policy=%s: %s" !frames_i (if !init_alloc then "alloc" else "free") !polname (String.concat " " res)));
  if mk <> ik then corr "result" "init" (Printf.sprintf "LLFree::new frames=%d init=%s impl=[%s] model=[%s] model-site=%s" !frames_i (if !init_alloc then "alloc" else "free") (String.concat " " res) mk (panic_site m));
  (match m with Ok u -> model := Some u | _ -> model := None);
  alive := ik = "ok";
  if !alive then
    pending := Some { p_i = "init"; p_text = "LLFree::new"; p_kind = "init"; p_invalid = false; p_panic = false; p_resync = (match m with Ok _ -> false | _ -> true); p_change = None }

(* ------------------------------------------------------------------ operations *)
let class_slots_i c = List.fold_left (fun acc (k, n) -> if k = c then Some n else acc) None !classes_i

(* (arguments valid for `check`, slot index valid) *)
let validity (frame : string option) (order : string) (cls : string) (local : string) : bool * bool * int * int =
  let order_i = try int_of_string order with _ -> max_int in
  let cls_i = int_of_string cls in
  let slots = if cls_i < 8 then class_slots_i cls_i else None in
  let fr = match frame with None -> Some 0 | Some s -> if String.length s > 17 then None else Some (int_of_string s) in
  let args_ok =
    order_i <= tord_i () && slots <> None
    && match fr with None -> false | Some f -> f + pow2i order_i <= !frames_i && f land (pow2i order_i - 1) = 0
  in
  let slot_ok = match (local, slots) with "-", _ -> true | l, Some n -> int_of_string l < n | _, None -> true in
  (args_ok, slot_ok, order_i, match fr with Some f -> f | None -> -1)

let order_nat s = try nat_of_int (min (int_of_string s) 300) with _ -> nat_of_int 300

let mk_pending i text kind invalid panic resync change =
  pending := Some { p_i = i; p_text = text; p_kind = kind; p_invalid = invalid; p_panic = panic; p_resync = resync; p_change = change }

let note_panic i text res valid slot_valid =
  incr panics;
  if valid && slot_valid then oracle "C09" i (Printf.sprintf "%s (valid parameters) panicked: %s" text (String.concat " " res))
  else if not valid then oracle "C08" i (Printf.sprintf "%s (invalid arguments) panicked instead of returning an error: %s" text (String.concat " " res))

let handle_get i (frame : string) order cls local (res : string list) text =
  let u = match !model with Some u -> u | None -> upper_of_dump () in
  let fr = if frame = "-" then None else Some frame in
  let valid, slot_valid, order_i, frame_i = validity fr order cls local in
  let req = { r_order = order_nat order; r_class = n_of_udec cls; r_local = nopt local } in
  let mres, u' = llfree_get !geo !policy u (nopt frame) req in
  model := Some u';
  let ik = impl_kind res in
  let resync = ref false in
  (* correspondence: result (kind + frame), class *)
  (match (res, mres) with
  | [ "ok"; f; c ], Ok (mf, mc) ->
      if n_of_udec f <> mf then (resync := true; corr "result" i (Printf.sprintf "%s impl=[ok %s] model=[ok %s]" text f (dec_of_n mf)))
      else if n_of_udec c <> mc then (resync := true; corr "class" i (Printf.sprintf "%s impl class %s model class %s" text c (dec_of_n mc)))
  | _ ->
      let mk = show_res (fun _ -> "ok") mres in
      let ik' = match res with "ok" :: _ -> "ok" | _ -> ik in
      if mk <> ik' then (
        resync := true;
        corr "result" i (Printf.sprintf "%s impl=[%s] model=[%s] model-site=%s" text (String.concat " " res) (show_res (fun (f, c) -> "ok " ^ dec_of_n f ^ " " ^ dec_of_n c) mres) (panic_site mres)))
      else if ik = "panic" then note (Printf.sprintf "panic-pair %s %s impl=%s model-site=%s" (where i) text (match res with _ :: loc :: _ -> loc | _ -> "?") (panic_site mres)));
  bump hist_ops ("get_" ^ (match res with "ok" :: _ -> "ok" | "err" :: e :: _ -> "err" ^ e | _ -> "panic"));
  if order_i <= 64 then Hashtbl.replace orders_seen order_i ();
  let was_drained = !drained in
  drained := false;
  (* oracles on the implementation's own result *)
  let sp = !spec in
  (match res with
  | "panic" :: _ -> note_panic i text res valid slot_valid
  | [ "ok"; f; c ] ->
      let k = order_nat order in
      if not valid then oracle "C08" i (Printf.sprintf "%s (invalid arguments) succeeded" text);
      (* the returned block: aligned, inside the managed range (hence inside one tree), entirely free *)
      let fi = if String.length f <= 17 then int_of_string f else -1 in
      if order_i > tord_i () || fi < 0 || fi + pow2i order_i > !frames_i || fi land (pow2i order_i - 1) <> 0 then
        oracle "C02" i (Printf.sprintf "%s returned frame %s: the block is not aligned or not in range" text f)
      else begin
        let t = fi / !tf_i in
        if not (spec_get_enabled (sp_of sp t) (rel fi) k) then
          oracle "C02" i (Printf.sprintf "%s returned frame %s: the block is not aligned, not in range or not entirely free" text f);
        spec := sp_with sp t (spec_get !geo (sp_of sp t) (rel fi) k)
      end;
      (match fr with Some rf when rf <> f -> oracle "C02" i (Printf.sprintf "%s returned frame %s instead of the requested one" text f) | _ -> ());
      (* C13: reported class permitted by the policy *)
      let rc = n_of_udec cls and cc = n_of_udec c in
      if cc <> rc then (
        match !policy rc cc (pow2 k) with
        | PMatch _ | PSteal -> ()
        | _ -> oracle "C13" i (Printf.sprintf "%s reported class %s, which the policy does not rate as match or stealable for class %s" text c cls));
      (* C15: never from an offline tree *)
      if String.length f <= 17 then begin
        let t = int_of_string f / !tf_i in
        if Hashtbl.mem off_clean t then oracle "C15" i (Printf.sprintf "%s returned frame %s of the offline tree %d" text f t)
      end
  | [ "err"; "arg" ] -> if valid then oracle "C08" i (Printf.sprintf "%s (valid arguments) was rejected with an argument error" text)
  | [ "err"; "mem" ] ->
      if not valid then oracle "C08" i (Printf.sprintf "%s (invalid arguments) returned err mem instead of err arg" text)
      else begin
        (* C10: after a drain *)
        if was_drained && slot_valid && !polname <> "custom" then begin
          if any_dirty () then incr skipped_oracle
          else
            match fr with
            | None ->
                if order_i = 0 then begin
                  let fo = free_outside_offline sp in
                  if fo > 0 then oracle "C10" i (Printf.sprintf "%s failed right after a drain although %d frames outside offline trees are free" text fo)
                end
            | Some _ ->
                if all_free (sp_of sp (frame_i / !tf_i)) (rel frame_i) (order_nat order) && not (Hashtbl.mem off_clean (frame_i / !tf_i)) then
                  oracle "C10" i (Printf.sprintf "%s failed right after a drain although the block is free and its tree is not offline" text)
        end;
        if fr = None && order_i = 0 && slot_valid then begin
          let ef = total_free sp in
          if !suite = "exhaust" && ef > 0 then oracle "C11" i (Printf.sprintf "%s failed although %d frames are free" text ef);
          if !suite = "init" && ef > 0 then oracle "C06" i (Printf.sprintf "%s failed although %d of %d frames are free" text ef !frames_i)
        end
      end
  | _ -> ());
  (* a successful targeted get right after a drain is covered by C02; an unexpected success into an offline tree by C15 *)
  mk_pending i text "get" (not valid) (ik = "panic") !resync None

let handle_put i frame order cls local (res : string list) text =
  let u = match !model with Some u -> u | None -> upper_of_dump () in
  let valid, slot_valid, order_i, _ = validity (Some frame) order cls local in
  let req = { r_order = order_nat order; r_class = n_of_udec cls; r_local = nopt local } in
  let mres, u' = llfree_put !geo !policy u (n_of_udec frame) req in
  model := Some u';
  let ik = impl_kind res in
  let mk = show_res (fun _ -> "ok") mres in
  let resync = mk <> ik in
  if resync then corr "result" i (Printf.sprintf "%s impl=[%s] model=[%s] model-site=%s" text (String.concat " " res) mk (panic_site mres))
  else if ik = "panic" then note (Printf.sprintf "panic-pair %s %s impl=%s model-site=%s" (where i) text (match res with _ :: loc :: _ -> loc | _ -> "?") (panic_site mres));
  bump hist_ops ("put_" ^ (match res with "ok" :: _ -> "ok" | "err" :: e :: _ -> "err" ^ e | _ -> "panic"));
  if order_i <= 64 then Hashtbl.replace orders_seen order_i ();
  drained := false;
  let sp = !spec in
  (match res with
  | "panic" :: _ -> note_panic i text res valid slot_valid
  | [ "ok" ] ->
      if not valid then oracle "C08" i (Printf.sprintf "%s (invalid arguments) succeeded" text)
      else begin
        let fi = int_of_string frame and k = order_nat order in
        let t = fi / !tf_i in
        if not (spec_put_enabled !geo (sp_of sp t) (rel fi) k) then
          oracle "C02" i (Printf.sprintf "%s succeeded although the block is not entirely allocated (or not whole huge frames)" text);
        spec := sp_with sp t (spec_put !geo (sp_of sp t) (rel fi) k)
      end
  | [ "err"; "arg" ] -> if valid then oracle "C08" i (Printf.sprintf "%s (valid arguments) was rejected with an argument error" text)
  | [ "err"; "mem" ] ->
      if not valid then oracle "C08" i (Printf.sprintf "%s (invalid arguments) returned err mem instead of err arg" text)
      else if (let fi = int_of_string frame in spec_put_enabled !geo (sp_of sp (fi / !tf_i)) (rel fi) (order_nat order)) then
        oracle "C02" i (Printf.sprintf "%s failed although every frame of the block is allocated%s" text (if order_i >= !hord_i then " as whole huge frames" else ""))
  | _ -> ());
  mk_pending i text "put" (not valid) (ik = "panic") resync None

let simple_result i text kind (res : string list) (mres : unit res) =
  let ik = impl_kind res in
  let mk = show_res (fun _ -> "ok") mres in
  let resync = mk <> ik in
  if resync then corr "result" i (Printf.sprintf "%s impl=[%s] model=[%s] model-site=%s" text (String.concat " " res) mk (panic_site mres));
  bump hist_ops (kind ^ "_" ^ (match res with "ok" :: _ -> "ok" | "err" :: e :: _ -> "err" ^ e | _ -> "panic"));
  (ik, resync)

let handle_drain i (res : string list) text =
  let u = match !model with Some u -> u | None -> upper_of_dump () in
  let mres, u' = llfree_drain !geo !policy u in
  model := Some u';
  let ik, resync = simple_result i text "drain" res mres in
  if ik = "panic" then note_panic i text res true true;
  drained := ik = "ok";
  mk_pending i text "drain" false (ik = "panic") resync None

let handle_change i id mclass mfree nclass op (res : string list) text =
  let u = match !model with Some u -> u | None -> upper_of_dump () in
  let m = { m_id = nopt id; m_class = nopt mclass; m_free = n_of_udec mfree } in
  let ch = { c_class = nopt nclass; c_op = (match op with "on" -> Some OpOnline | "off" -> Some OpOffline | _ -> None) } in
  let mres, u' = llfree_change_tree !geo u m ch in
  model := Some u';
  let ik, resync = simple_result i text "change" res mres in
  let cls_ok = match nclass with "-" -> true | c -> class_slots_i (int_of_string c) <> None in
  if ik = "panic" then note_panic i text res true cls_ok;
  drained := false;
  mk_pending i text "change" false (ik = "panic") resync (Some (m.m_id, m.m_class, m.m_free, ch.c_class, op, ik = "ok"))

let handle_handoff i (res : string list) text =
  let u = match !model with Some u -> u | None -> upper_of_dump () in
  let m = llfree_new !geo !frames_n INone !classes !dflt u.low u.trees (slots_of_locals u.locals) in
  let ik, resync = simple_result i text "handoff" res (match m with Ok _ -> Ok () | Err e -> Err e | Panic s -> Panic s) in
  (match m with Ok u' -> model := Some u' | _ -> ());
  if ik <> "ok" then oracle "C07" i (Printf.sprintf "handoff construction failed: %s" (String.concat " " res));
  if ik = "panic" then incr panics;
  mk_pending i text "handoff" false (ik = "panic") resync None

let handle_recover i (res : string list) text =
  let u = match !model with Some u -> u | None -> upper_of_dump () in
  let m = llfree_new !geo !frames_n IRecover !classes !dflt u.low [] (empty_slots ()) in
  let ik, resync = simple_result i text "recover" res (match m with Ok _ -> Ok () | Err e -> Err e | Panic s -> Panic s) in
  (match m with Ok u' -> model := Some u' | _ -> ());
  if ik = "panic" then note_panic i text res true true;
  if ik = "ok" then (Hashtbl.reset off_clean; Hashtbl.reset off_dirty);
  drained := false;
  mk_pending i text "recover" false (ik = "panic") resync None

(* ------------------------------------------------------------------ lowerget (C12) *)
let handle_lowerget i row order (res : string list) text =
  let u = match !model with Some u -> u | None -> upper_of_dump () in
  let rown = n_of_udec row and k = int_of_string order in
  let mres, l' = lower_get !geo u.low rown (nat_of_int k) in
  let ik = impl_kind res in
  let mk = show_res (fun f -> "ok " ^ dec_of_n f) mres in
  if mk <> ik then corr "result" i (Printf.sprintf "%s impl=[%s] model=[%s] model-site=%s" text (String.concat " " res) mk (panic_site mres));
  bump hist_ops ("lowerget_" ^ (match res with "ok" :: _ -> "ok" | "err" :: e :: _ -> "err" ^ e | _ -> "panic"));
  Hashtbl.replace orders_seen k ();
  if ik = "panic" then (incr panics; oracle "C09" i (Printf.sprintf "%s panicked: %s" text (String.concat " " res)));
  lowerget_pending := Some (i, text, rown, k, res, (match mres with Panic _ -> None | _ -> Some l'));
  drained := false;
  mk_pending i text "lowerget" false (ik = "panic") false None

(* `LST ents=.. rows=..`: the lower buffer of the throw-away copy after the lowerget *)
let handle_lst (toks : string list) =
  match (!lowerget_pending, toks) with
  | Some (i, text, rown, k, res, ml), [ e; r ] ->
      lowerget_pending := None;
      let ents = parse_list (fun x -> n_of_hex x) (field "ents=" e) and bfs = parse_list parse_bf (field "rows=" r) in
      (match ml with
      | Some l ->
          if l.ents <> ents then corr "ents" i (Printf.sprintf "after %s: %s" text (first_diff hex_of_n ents l.ents));
          if l.bfs <> bfs then corr "rows" i (Printf.sprintf "after %s: bitfield %s" text (first_diff show_bf bfs l.bfs))
      | None -> ());
      let sp = !spec in
      let t = int_of_n rown * 64 / !tf_i in
      let kn = nat_of_int k in
      (match split_dump ents bfs with
      | None -> oracle "C12" i (Printf.sprintf "%s: dump of the copy has the wrong shape" text)
      | Some (ec, bc) ->
          (* abstraction of the copy, tree by tree (unchanged trees are taken from the last dump of A) *)
          let after =
            Array.init (Array.length ec) (fun x ->
                if x < Array.length !d_ents_t && !d_ents_t.(x) = ec.(x) && !d_bfs_t.(x) = bc.(x) then !d_abs.(x) else fst (abs_tree x ec.(x) bc.(x)))
          in
          let st = sp_of sp t in
          let show_diff (a : ospec array) (b : ospec array) =
            let r = ref "equal" in
            Array.iteri (fun x ax -> if !r = "equal" && ax <> sp_of b x then r := Printf.sprintf "tree %d: %s" x (bitset_diff ax.o_alloc (sp_of b x).o_alloc)) a;
            !r
          in
          (match res with
          | [ "ok"; f ] ->
              let fi = int_of_string f in
              if fi / !tf_i <> t then oracle "C12" i (Printf.sprintf "%s returned frame %s outside tree %d" text f t)
              else if not (spec_get_enabled st (rel fi) kn) then
                oracle "C12" i (Printf.sprintf "%s returned frame %s: not an aligned, in-range, entirely free block" text f)
              else begin
                let expect = sp_with sp t (spec_get !geo st (rel fi) kn) in
                if after <> expect then oracle "C12" i (Printf.sprintf "%s => ok %s did not mark exactly that block: %s" text f (show_diff after expect))
              end
          | [ "err"; "mem" ] ->
              if after <> sp then oracle "C12" i (Printf.sprintf "%s failed but changed the allocation state: %s" text (show_diff after sp));
              (* brute force on the ownership state: an aligned entirely free block of that order in the tree? *)
              let len = int_of_n st.o_frames in
              let bits = Array.make len false in
              List.iteri (fun j b -> if j < len && b = 1 then bits.(j) <- true) (bits_of_n st.o_alloc);
              let sz = 1 lsl k in
              let found = ref (-1) in
              let f = ref 0 in
              while !found < 0 && !f + sz <= len do
                let free = ref true in
                (try for j = !f to !f + sz - 1 do if bits.(j) then (free := false; raise Exit) done with Exit -> ());
                if !free then found := (t * !tf_i) + !f;
                f := !f + sz
              done;
              if !found >= 0 then oracle "C12" i (Printf.sprintf "%s failed although the aligned block at frame %d is entirely free" text !found)
          | _ -> ()))
  | _ -> ()

(* ------------------------------------------------------------------ queries *)
let show_stats (s : stats) = Printf.sprintf "%s %s %s" (dec_of_n s.free_frames) (dec_of_n s.free_huge) (dec_of_n s.free_trees)
let show_tstats (s : tree_stats) =
  Printf.sprintf "%s %s %s" (dec_of_n s.ts_free) (dec_of_n s.ts_trees)
    (String.concat "," (List.map (fun c -> dec_of_n c.cs_free ^ ":" ^ dec_of_n c.cs_alloc) s.ts_classes))

(* (free frames, free huge frames, free trees) of one tree's ownership state, by the extracted functions *)
let spec_stats_cache : (ospec * (int * int * int)) option array ref = ref [||]
let spec_stats (sp : ospec array) : string =
  let nt = Array.length sp in
  if Array.length !spec_stats_cache <> nt then spec_stats_cache := Array.make nt None;
  let a = ref 0 and b = ref 0 and c = ref 0 in
  Array.iteri
    (fun t s ->
      let x, y, z =
        match !spec_stats_cache.(t) with
        | Some (s', r) when s' == s -> r
        | _ ->
            let r = (int_of_n (exact_free s), int_of_n (free_huge_count !geo s), int_of_n (free_tree_count !geo s)) in
            !spec_stats_cache.(t) <- Some (s, r);
            r
      in
      a := !a + x;
      b := !b + y;
      c := !c + z)
    sp;
  Printf.sprintf "%d %d %d" !a !b !c

let handle_query i (q : string list) (res : string list) text =
  let u = match !model with Some u -> u | None -> upper_of_dump () in
  let impl = String.concat " " res in
  let ik = impl_kind res in
  let sp = !spec in
  bump hist_ops ("q_" ^ List.hd q);
  match q with
  | [ "stats" ] ->
      let m = show_stats (llfree_stats !geo u) in
      if m <> impl then corr "stats" i (Printf.sprintf "stats impl=[%s] model=[%s]" impl m);
      let s = spec_stats sp in
      if s <> impl then oracle "C04" i (Printf.sprintf "stats = [%s] but the allocation state has [%s] (free frames, free huge frames, free trees)" impl s)
  | [ "stats_at"; f; o ] ->
      let k = int_of_string o in
      let m = show_res show_stats (llfree_stats_at !geo u (n_of_udec f) (nat_of_int k)) in
      if m <> ik then corr "stats" i (Printf.sprintf "%s impl=[%s] model=[%s]" text impl m);
      if ik = "panic" then (incr panics; oracle "C09" i (Printf.sprintf "%s panicked: %s" text impl))
      else begin
        let fi = int_of_string f in
        let expect =
          if k = 0 then Printf.sprintf "%d 0 0" (free_in sp fi (fi + 1))
          else if k = !hord_i then
            let h = fi / !hf_i in
            let fr = free_in sp (h * !hf_i) ((h + 1) * !hf_i) in
            Printf.sprintf "%d %d 0" fr (if fr = !hf_i then 1 else 0)
          else if k = tord_i () then begin
            let t = fi / !tf_i in
            let fr = tree_free_spec sp t in
            let fh = ref 0 in
            for h = t * (1 lsl !tlog_i) to (t + 1) * (1 lsl !tlog_i) - 1 do
              if free_in sp (h * !hf_i) ((h + 1) * !hf_i) = !hf_i then incr fh
            done;
            Printf.sprintf "%d %d %d" fr !fh (if fr = !tf_i then 1 else 0)
          end
          else "0 0 0"
        in
        if expect <> impl then oracle "C04" i (Printf.sprintf "%s = [%s] but the allocation state has [%s]" text impl expect)
      end
  | [ "tree_stats" ] ->
      let m = show_res show_tstats (llfree_tree_stats !geo u) in
      if m <> ik then corr "tree_stats" i (Printf.sprintf "tree_stats impl=[%s] model=[%s]" impl m);
      if ik = "panic" then (incr panics; oracle "C09" i (Printf.sprintf "tree_stats panicked: %s" impl))
      else begin
        match res with
        | [ ff; _ft; cl ] ->
            let ff = int_of_string ff in
            let cls = List.map (fun e -> match String.split_on_char ':' e with [ a; b ] -> (int_of_string a, int_of_string b) | _ -> (0, 0)) (String.split_on_char ',' cl) in
            let sum_all = List.fold_left (fun a (f, al) -> a + f + al) 0 cls and sum_free = List.fold_left (fun a (f, _) -> a + f) 0 cls in
            if sum_all <> ntrees_i () * !tf_i then
              oracle "C14" i (Printf.sprintf "tree_stats [%s]: free+allocated over all classes = %d, %d trees x %d frames = %d" impl sum_all (ntrees_i ()) !tf_i (ntrees_i () * !tf_i));
            if sum_free <> ff then oracle "C14" i (Printf.sprintf "tree_stats [%s]: per-class free counts sum to %d, total free count is %d" impl sum_free ff);
            if any_dirty () then incr skipped_oracle
            else begin
              let expect = free_outside_offline sp in
              if ff <> expect then
                oracle "C04" i (Printf.sprintf "tree_stats free_frames = %d, exact free frames minus frames of offline trees = %d" ff expect)
            end
        | _ -> ()
      end
  | [ "is_free"; f; o ] ->
      let k = int_of_string o in
      let m = show_res (fun b -> if b then "1" else "0") (lower_is_free !geo u.low (n_of_udec f) (nat_of_int k)) in
      if m <> ik then corr "stats" i (Printf.sprintf "%s impl=[%s] model=[%s]" text impl m);
      if ik = "panic" then (incr panics; oracle "C09" i (Printf.sprintf "%s panicked: %s" text impl))
      else begin
        let fi = int_of_string f in
        let st = sp_of sp (fi / !tf_i) in
        let e = if all_free st (rel fi) (nat_of_int k) && in_range st (rel fi) (nat_of_int k) then "1" else "0" in
        if e <> impl then oracle "C04" i (Printf.sprintf "%s = %s but the allocation state says %s" text impl e)
      end
  | [ "validate" ] ->
      let m = show_res (fun () -> "ok") (llfree_validate !geo u) in
      if m <> ik then corr "result" i (Printf.sprintf "validate impl=[%s] model=[%s] model-site=%s" impl m (panic_site (llfree_validate !geo u)));
      if ik = "panic" then begin
        incr panics;
        if Hashtbl.length off_clean = 0 && Hashtbl.length off_dirty = 0 then oracle "C04" i (Printf.sprintf "validate failed with no tree offline: %s" impl)
      end
  | _ -> failwith ("bad query " ^ text)

(* ------------------------------------------------------------------ main loop *)
let strip_result (toks : string list) : string list * string list =
  let rec go acc = function [] -> (List.rev acc, []) | "=>" :: r -> (List.rev acc, r) | x :: r -> go (x :: acc) r in
  go [] toks

let suite_seq file =
  let notes = ref 0 in
  ignore notes;
  iter_lines file (fun line ->
      match split line with
      | [] -> ()
      | "GEOM" :: rest ->
          let ho = ref 9 and th = ref 4 in
          List.iter (fun tok -> match kv tok with "huge_order", v -> ho := int_of_string v | "tree_huge", v -> th := int_of_string v | _ -> ()) rest;
          set_geometry !ho !th
      | "H" :: id :: rest ->
          hid := id;
          List.iter (fun tok -> match kv tok with "suite", v -> suite := v | _ -> ()) rest
      | "CFG" :: rest -> spec_stats_cache := [||]; handle_cfg rest
      | "INIT" :: "=>" :: res -> handle_init res
      | "E" :: _ -> alive := false
      | "ST" :: rest -> if !alive then timed "st" (fun () -> handle_st rest line)
      | "LST" :: rest -> if !alive then handle_lst rest
      | "HFAIL" :: i :: rest -> oracle "C07" i (String.concat " " rest)
      | "CANARY" :: i :: rest -> oracle "C18" i ("guard region of a metadata buffer modified: " ^ String.concat " " rest)
      | "LAYOUT" :: i :: rest ->
          (* the crate's metadata_size disagrees with the layout its own accessors use: buffers of exactly that size are
             too small (or mis-sized) for this frame count *)
          let t = "metadata size computation: " ^ String.concat " " rest in
          oracle "C18" i t; oracle "C06" i t; alive := false
      | "OP" :: i :: rest when !alive ->
          incr evals;
          let op, res = strip_result rest in
          let text = String.concat " " op in
          timed ("op_" ^ List.hd op) (fun () -> match op with
          | [ "get"; f; o; c; l ] -> handle_get i f o c l res text
          | [ "put"; f; o; c; l ] -> handle_put i f o c l res text
          | [ "drain" ] -> handle_drain i res text
          | [ "change"; id; mc; mf; nc; o ] -> handle_change i id mc mf nc o res text
          | [ "handoff" ] -> handle_handoff i res text
          | [ "recover" ] -> handle_recover i res text
          | [ "lowerget"; r; o ] -> handle_lowerget i r o res text
          | _ -> failwith ("bad op " ^ line))
      | "Q" :: i :: rest when !alive ->
          incr evals;
          let q, res = strip_result rest in
          last_query := String.concat " " q;
          timed ("q_" ^ List.hd q) (fun () -> handle_query i q res (String.concat " " q))
      | ("OP" | "Q") :: _ -> ()
      | "ACC" :: rest -> if !alive then handle_acc rest
      | _ -> failwith ("seq: bad line " ^ line));
  let total pre = Hashtbl.fold (fun k v a -> if starts_with pre k then a + v else a) mism 0 in
  let b = Buffer.create 1024 in
  Printf.bprintf b "SUMMARY suite=seq evaluations=%d distinct=%d histories=%d panics=%d max_trees=%d skipped_oracle=%d" !evals (Hashtbl.length distinct) !histories
    !panics !max_trees !skipped_oracle;
  let ords = List.sort compare (Hashtbl.fold (fun k () a -> k :: a) orders_seen []) in
  Printf.bprintf b " orders=%s" (if ords = [] then "-" else String.concat "," (List.map string_of_int ords));
  List.iter (fun (k, v) -> Printf.bprintf b " %s=%d" k v) (List.sort compare (Hashtbl.fold (fun k v a -> (k, v) :: a) hist_ops []));
  List.iter (fun (k, v) -> Printf.bprintf b " policy_%s=%d" k v) (List.sort compare (Hashtbl.fold (fun k v a -> (k, v) :: a) policies_seen []));
  List.iter (fun (k, v) -> Printf.bprintf b " n_%s=%d" k v) (List.sort compare (Hashtbl.fold (fun k v a -> (k, v) :: a) mism []));
  Printf.bprintf b " corr=%d oracle=%d" (total "CORR") (total "ORACLE");
  print_endline (Buffer.contents b);
  if prof then Hashtbl.iter (fun k v -> Printf.eprintf "PROF %s %.2fs\n" k v) prof_t

let () =
  match Array.to_list Sys.argv with
  | _ :: "seq" :: file :: _ -> suite_seq file
  | _ ->
      prerr_endline "usage: seq.exe seq <transcript|->";
      exit 2
