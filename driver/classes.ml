(* C19 suite: class configurations (transcripts of harness-eval/classrun).
   CORR   = the implementation's `request` / `classing` result differs from the extracted model
            (`request`, `classing_counts`), or facet_json parsed the JSON differently from the harness.
   ORACLE = the implementation's own result violates the extracted specification `req_valid_b`
            (class id configured; local None or below the slot count that the implementation's own
            `classing(cores)` reported for that class id), or `request` panicked inside the hypotheses,
            or using the request on a real allocator hit a slice index out of bounds.
            Evaluated without the model's `request`.
   HYP    = same as ORACLE but for a configuration outside the theorem's hypotheses (duplicate ids of
            different kinds; only generated with classrun --dups).
   NOTE   = a panic while using a (valid) request that is not an index panic (reported, not a C19 violation). *)
open Model
open Conv
open Dcommon

(* unsigned 64-bit decimal -> N *)
let n_of_udec (s : string) : n =
  if String.length s <= 17 then n_of_int (int_of_string s)
  else n_of_hex (Printf.sprintf "%Lx" (Int64.of_string ("0u" ^ s)))

let kind_of_string = function
  | "zero" -> CZero
  | "one" -> COne
  | "cores" -> CCores
  | "cores_half" -> CCoresHalf
  | "pids" -> CPids
  | s -> failwith ("bad kind " ^ s)

let string_of_kind = function CZero -> "zero" | COne -> "one" | CCores -> "cores" | CCoresHalf -> "cores_half" | CPids -> "pids"

(* gfp tokens in prefix form *)
let rec parse_gfp toks =
  match toks with
  | "on" :: f :: r -> (On (n_of_hex f), r)
  | "off" :: f :: r -> (Off (n_of_hex f), r)
  | "all" :: k :: r ->
      let l, r = parse_list (int_of_string k) r in
      (All l, r)
  | "any" :: k :: r ->
      let l, r = parse_list (int_of_string k) r in
      (Any l, r)
  | "not" :: r ->
      let m, r = parse_gfp r in
      (Not m, r)
  | _ -> failwith "bad gfp matcher"

and parse_list k toks =
  if k = 0 then ([], toks)
  else
    let m, r = parse_gfp toks in
    let l, r = parse_list (k - 1) r in
    (m :: l, r)

let show_local = function None -> "N" | Some i -> dec_of_n i

let show_res = function
  | Ok r -> Printf.sprintf "%s %s" (dec_of_n r.r_class) (show_local r.r_local)
  | Panic _ -> "P"
  | Err _ -> "E"

let show_counts l = if l = [] then "-" else String.concat "," (List.map (fun (i, c) -> dec_of_n i ^ ":" ^ dec_of_n c) l)

let starts_with p s = String.length s >= String.length p && String.sub s 0 (String.length p) = p
let contains s sub =
  let n = String.length s and m = String.length sub in
  let rec go i = i + m <= n && (String.sub s i m = sub || go (i + 1)) in
  go 0

let suite_classes file =
  let evals = ref 0 and configs = ref 0 and outside = ref 0 and fell = ref 0 in
  let some_local = ref 0 and none_local = ref 0 and used_ok = ref 0 and used_err = ref 0 and used_panic = ref 0 in
  let distinct = Hashtbl.create 1000003 in
  let by_kind = Hashtbl.create 7 and by_n = Hashtbl.create 17 and by_cores = Hashtbl.create 17 in
  let bump h k = Hashtbl.replace h k (1 + try Hashtbl.find h k with Not_found -> 0) in
  (* current configuration *)
  let label = ref "" and cfgno = ref 0 in
  let cfg : class_config list ref = ref [] in
  let hyp = ref false and consistent = ref true in
  let cores = ref N0 and cores_s = ref "?" in
  let slots : (n * n) list ref = ref [] and k_panic = ref false in
  let finish_cfg () =
    (* hypotheses of the theorems, decided on the parsed configuration *)
    let c = !cfg in
    consistent :=
      List.for_all (fun a -> List.for_all (fun b -> a.cc_id <> b.cc_id || a.cc_count = b.cc_count) c) c;
    hyp := c <> [] && List.length c <= 8 && List.for_all (fun a -> int_of_n a.cc_id < 8) c
  in
  let where () = Printf.sprintf "cfgno=%d cfg=%s cores=%s" !cfgno !label !cores_s in
  iter_lines file (fun line ->
      match split line with
      | "CFG" :: l :: n :: _ ->
          incr configs;
          cfgno := !configs;
          label := l;
          cfg := [];
          slots := [];
          cores := N0;
          cores_s := "?";
          bump by_n n
      | "J" :: _ -> ()
      | "C" :: id :: kind :: mn :: mx :: gfp ->
          let order = if mn = "-" then None else Some (n_of_udec mn, n_of_udec mx) in
          let m, rest = parse_gfp gfp in
          if rest <> [] then failwith ("classes: trailing tokens " ^ line);
          cfg := !cfg @ [ { cc_id = n_of_udec id; cc_count = kind_of_string kind; cc_order = order; cc_gfp = m } ];
          finish_cfg ()
      | "PARSE" :: r :: _ ->
          finish_cfg ();
          if r <> "ok" then report "CORR" (Printf.sprintf "facet_json parse of the configuration: %s cfgno=%d cfg=%s" r !cfgno !label)
      | "K" :: c :: rest ->
          cores := n_of_udec c;
          cores_s := c;
          bump by_cores c;
          let m = classing_counts !cfg !cores in
          let mpanic = (match allocator_slots !cfg !cores N0 with Panic (SIndex (Npos XH)) -> true | _ -> false) in
          (match rest with
          | [ "P" ] ->
              k_panic := true;
              slots := [];
              if not mpanic then report "CORR" (Printf.sprintf "classing panicked, model=[%s] %s" (show_counts m) (where ()))
          | [ s ] ->
              k_panic := false;
              slots :=
                if s = "-" then []
                else
                  List.map
                    (fun e -> match String.split_on_char ':' e with [ i; c ] -> (n_of_udec i, n_of_udec c) | _ -> failwith ("bad K entry " ^ e))
                    (String.split_on_char ',' s);
              if mpanic then report "CORR" (Printf.sprintf "classing impl=[%s] model=panic %s" s (where ()))
              else if m <> !slots then report "CORR" (Printf.sprintf "classing impl=[%s] model=[%s] %s" s (show_counts m) (where ()))
          | _ -> failwith ("classes: bad line " ^ line))
      | "Q" :: order :: core :: pid :: gfp :: rest ->
          incr evals;
          let q = Printf.sprintf "q=%s,%s,%s,%s" order core pid gfp in
          let o = n_of_udec order and co = n_of_udec core and p = n_of_udec pid and g = n_of_hex gfp in
          let impl, use =
            match rest with
            | [ "P" ] -> ("P", "-")
            | [ c; l; u ] -> (c ^ " " ^ l, u)
            | _ -> failwith ("classes: bad line " ^ line)
          in
          (* ---- correspondence with the model *)
          let m = request !cfg o co !cores p g in
          let ms = show_res m in
          if ms <> impl then
            report "CORR" (Printf.sprintf "request impl=[%s] model=[%s] %s %s" impl ms (where ()) q);
          (* ---- evidence *)
          (match m with
          | Ok r ->
              (match r.r_local with Some _ -> incr some_local | None -> incr none_local);
              if fell_through !cfg o g then incr fell;
              (match List.find_opt (fun c -> cfg_matches c o g) !cfg, !cfg with
              | Some c, _ | None, c :: _ -> bump by_kind (string_of_kind c.cc_count)
              | None, [] -> ())
          | _ -> ());
          if impl <> "P" && not (contains impl " N") then begin
            (* distinct (configuration, cores, query) with a slot index: keyed by a 60-bit hash of the text *)
            let key = Printf.sprintf "%d %s %s" !cfgno !cores_s q in
            Hashtbl.replace distinct ((Hashtbl.hash key lsl 30) lor Hashtbl.seeded_hash 17 key) ()
          end;
          (* ---- oracle on the implementation's own results *)
          let inside = !hyp && !cores <> N0 in
          if not inside then incr outside
          else begin
            let kind = if !consistent then "ORACLE" else "HYP" in
            let valid = ref true in
            (match rest with
            | [ "P" ] -> valid := false; report kind (Printf.sprintf "request panicked inside the hypotheses %s %s" (where ()) q)
            | [ c; l; _ ] ->
                let r = { r_order = o; r_class = n_of_udec c; r_local = (if l = "N" then None else Some (n_of_udec l)) } in
                let ids = List.map (fun c -> c.cc_id) !cfg in
                if !k_panic then report kind (Printf.sprintf "classing panicked inside the hypotheses %s" (where ()))
                else if not (req_valid_b ids !slots r) then begin
                  valid := false;
                  let why =
                    if not (List.mem r.r_class ids) then Printf.sprintf "class %s is not a configured class id" c
                    else
                      match List.filter (fun (i, _) -> i = r.r_class) !slots, r.r_local with
                      | [], _ -> Printf.sprintf "class %s has no entry in classing(%s).classes()" c !cores_s
                      | es, Some i ->
                          let cnt = List.fold_left (fun a (_, x) -> min a (int_of_n x)) max_int es in
                          Printf.sprintf "slot index %s >= slot count %d of class %s" (dec_of_n i) cnt c
                      | _ -> "?"
                    in
                  report kind (Printf.sprintf "invalid request: %s; impl=[%s] slots=[%s] %s %s" why impl (show_counts !slots) (where ()) q)
                end
            | _ -> ());
            if use = "ok" then incr used_ok
            else if use = "err" then incr used_err
            else if starts_with "panic:" use then begin
              incr used_panic;
              if not !valid then () (* already reported as an invalid request *)
              else if contains use "index_out_of_bounds" || contains use "out_of_range" then
                report kind (Printf.sprintf "using the request on LLFree panicked: %s; impl=[%s] slots=[%s] %s %s" use impl (show_counts !slots) (where ()) q)
              else report "NOTE" (Printf.sprintf "using a request on LLFree panicked: %s; impl=[%s] slots=[%s] %s %s" use impl (show_counts !slots) (where ()) q)
            end
          end
      | [] -> ()
      | t :: _ when String.length t > 0 && t.[0] = '#' -> ()
      | _ -> failwith ("classes: bad line " ^ line));
  let hist name h =
    let l = Hashtbl.fold (fun k v a -> (k, v) :: a) h [] in
    let l = List.sort (fun (a, _) (b, _) -> compare (int_of_string_opt a, a) (int_of_string_opt b, b)) l in
    String.concat " " (List.map (fun (k, v) -> Printf.sprintf "%s_%s=%d" name k v) l)
  in
  Printf.printf
    "SUMMARY suite=classes evaluations=%d distinct=%d configs=%d outside_hypotheses=%d fell_through=%d local_some=%d local_none=%d used_ok=%d used_err=%d used_panic=%d %s %s %s corr=%d oracle=%d hyp=%d note=%d\n"
    !evals (Hashtbl.length distinct) !configs !outside !fell !some_local !none_local !used_ok !used_err !used_panic (hist "kind" by_kind)
    (hist "classes" by_n) (hist "cores" by_cores) (count "CORR") (count "ORACLE") (count "HYP") (count "NOTE")

let () =
  match Array.to_list Sys.argv with
  | _ :: "classes" :: file :: _ -> suite_classes file
  | _ ->
      prerr_endline "usage: classes.exe classes <transcript>";
      exit 2
