(* Correspondence driver: replays transcripts written by the Rust harness through the
   extracted model and the extracted specifications.
   Output protocol (stdout): lines `MISMATCH <kind> <suite-specific text>` (kind = CORR when the
   implementation differs from the model, ORACLE when the implementation's own result violates
   the specification), then a final `SUMMARY key=value ...` line. *)
open Model
open Conv

let max_report = 20
let mism = Hashtbl.create 7
let report kind text =
  let c = try Hashtbl.find mism kind with Not_found -> 0 in
  Hashtbl.replace mism kind (c + 1);
  if c < max_report then Printf.printf "MISMATCH %s %s\n" kind text
let count kind = try Hashtbl.find mism kind with Not_found -> 0

let split s = String.split_on_char ' ' (String.trim s) |> List.filter (fun x -> x <> "")

let iter_lines file f =
  let ic = if file = "-" then stdin else open_in file in
  (try
     while true do
       f (input_line ic)
     done
   with End_of_file -> ());
  if file <> "-" then close_in ic

(* ---------- C23: rows ---------- *)
let show_row_res = function None -> "N" | Some (v, off) -> Printf.sprintf "S %s %s" (hex_of_n v) (dec_of_n off)

let suite_row file =
  let evals = ref 0 and some = ref 0 in
  let distinct = Hashtbl.create 100000 in
  iter_lines file (fun line ->
      match split line with
      | "R" :: v :: o :: rest ->
          incr evals;
          let impl = String.concat " " rest in
          if rest <> [ "N" ] then incr some;
          Hashtbl.replace distinct (v ^ " " ^ o) ();
          let vn = n_of_hex v and on = nat_of_int (int_of_string o) in
          let m = show_row_res (fza vn on) in
          let sp = show_row_res (row_spec vn on) in
          if m <> impl then report "CORR" (Printf.sprintf "row v=%s o=%s impl=[%s] model=[%s]" v o impl m);
          if sp <> impl then report "ORACLE" (Printf.sprintf "row v=%s o=%s impl=[%s] spec=[%s]" v o impl sp)
      | [] -> ()
      | _ -> failwith ("row: bad line " ^ line));
  Printf.printf "SUMMARY suite=row evaluations=%d distinct=%d found=%d corr=%d oracle=%d\n" !evals (Hashtbl.length distinct) !some
    (count "CORR") (count "ORACLE")

let () =
  match Array.to_list Sys.argv with
  | _ :: "row" :: file :: _ -> suite_row file
  | _ ->
      prerr_endline "usage: driver <suite> <transcript>";
      exit 2
