(* Conversions between OCaml values and the extracted Coq inductives (N, positive, nat). *)
open Model

let dbl = function N0 -> N0 | Npos p -> Npos (XO p)
let sdbl = function N0 -> Npos XH | Npos p -> Npos (XI p)

let digit c =
  match c with
  | '0' .. '9' -> Char.code c - 48
  | 'a' .. 'f' -> Char.code c - 87
  | 'A' .. 'F' -> Char.code c - 55
  | _ -> failwith ("bad hex digit " ^ String.make 1 c)

let n_of_hex (s : string) : n =
  let acc = ref N0 in
  String.iter
    (fun c ->
      let d = digit c in
      for b = 3 downto 0 do
        acc := if (d lsr b) land 1 = 1 then sdbl !acc else dbl !acc
      done)
    s;
  !acc

let rec bits_of_pos p = match p with XH -> [ 1 ] | XO q -> 0 :: bits_of_pos q | XI q -> 1 :: bits_of_pos q
let bits_of_n = function N0 -> [] | Npos p -> bits_of_pos p

let hex_of_n (x : n) : string =
  let rec go bits acc =
    match bits with
    | [] -> acc
    | _ ->
        let rec take k l v sh = if k = 0 then (v, l) else match l with [] -> (v, []) | b :: r -> take (k - 1) r (v lor (b lsl sh)) (sh + 1) in
        let v, rest = take 4 bits 0 0 in
        go rest (String.make 1 "0123456789abcdef".[v] ^ acc)
  in
  match bits_of_n x with [] -> "0" | b -> go b ""

let rec pos_of_int i = if i = 1 then XH else if i land 1 = 0 then XO (pos_of_int (i lsr 1)) else XI (pos_of_int (i lsr 1))
let n_of_int i = if i = 0 then N0 else Npos (pos_of_int i)
let int_of_n x = List.fold_right (fun b acc -> (acc lsl 1) lor b) (bits_of_n x) 0
let rec nat_of_int i = if i = 0 then O else S (nat_of_int (i - 1))
let rec int_of_nat = function O -> 0 | S n -> 1 + int_of_nat n
let n_of_dec s = n_of_int (int_of_string s)
let dec_of_n x = string_of_int (int_of_n x)
