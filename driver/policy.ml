(* Policy / request tie (audited with C09 and C13): transcripts of harness `polrun` (core crate:
   Classing::simple / Classing::movable policies, request closures, class tables; the harness's
   policy_by_name functions) and `poljson` (evaluation crate: JSON classing policy).
   CORR   = compiled result vs extracted Policies.v / Requests.v definitions.
   ORACLE = the compiled results alone: every request names a class of the compiled class table with a
            slot index below its slot count (extracted specification request_valid_b evaluated on the
            implementation's own table and request), order passed through, no panic; class tables have
            ids < 8 and a configured default; policies: reflexive pairs are matches, the kind does not
            depend on the free count, and for the ordered ones requested > target is steal,
            requested < target is demote, never invalid. *)
open Model
open Conv
open Dcommon

let hord = ref 9
let tf = ref 2048
let json_ranges = ref None
let json_label = ref "-"

let show_pol = function
  | PMatch n -> "match " ^ dec_of_n n
  | PDemote -> "demote"
  | PSteal -> "steal"
  | PInvalid -> "invalid"

let show_req r =
  Printf.sprintf "%d %s %s" (int_of_nat r.r_order) (dec_of_n r.r_class)
    (match r.r_local with None -> "-" | Some j -> dec_of_n j)

let show_classing (cl, d) =
  Printf.sprintf "%s default %s" (String.concat "," (List.map (fun (c, k) -> dec_of_n c ^ ":" ^ dec_of_n k) cl)) (dec_of_n d)

(* split a token list at "=>" *)
let rec at_arrow acc = function
  | [] -> (List.rev acc, [])
  | "=>" :: r -> (List.rev acc, r)
  | x :: r -> at_arrow (x :: acc) r

let base name = match String.index_opt name '@' with Some i -> String.sub name 0 i | None -> name

let pol_index = function "simple" -> 0 | "movable" -> 1 | "zeroed" -> 2 | "zeroslot" -> 3 | "custom" -> 4 | s -> failwith ("policy " ^ s)

(* the extracted definition(s) for a P line: the named function and, for the harness names, pol_select *)
let model_policy name r t f =
  let tfn = n_of_int !tf in
  match name with
  | "json" -> (
      match !json_ranges with
      | Some (a, b, c, d) -> [ pol_json (n_of_int a) (n_of_int b) (n_of_int c) (n_of_int d) r t f ]
      | None -> failwith "P json before J")
  | _ ->
      let b = base name in
      let direct =
        match b with
        | "simple" -> pol_simple tfn r t f
        | "movable" -> pol_movable tfn r t f
        | "zeroed" -> pol_zeroed tfn r t f
        | "zeroslot" -> pol_zeroslot tfn r t f
        | "custom" -> pol_custom tfn r t f
        | s -> failwith ("policy " ^ s)
      in
      if b = name then [ direct; pol_select (n_of_int (pol_index b)) tfn r t f ] else [ direct ]

let kind_of impl = match impl with "match" :: _ -> "match" | k :: _ -> k | [] -> "?"

let suite name file =
  let evals = ref 0 in
  let distinct = Hashtbl.create 100000 in
  let hist = Hashtbl.create 16 in
  let bump k = Hashtbl.replace hist k (1 + try Hashtbl.find hist k with Not_found -> 0) in
  let tables : (string * int, (int * int) list * int) Hashtbl.t = Hashtbl.create 64 in
  let kinds : (string * int * int, string) Hashtbl.t = Hashtbl.create 1024 in
  iter_lines file (fun line ->
      let lhs, rhs = at_arrow [] (split line) in
      match lhs with
      | [] -> ()
      | [ "G"; ho; _to; t ] ->
          hord := int_of_string ho;
          tf := int_of_string t
      | [ "J"; label; p; g ] ->
          let pair s = match String.split_on_char ',' s with [ a; b ] -> (int_of_string a, int_of_string b) | _ -> failwith ("J " ^ s) in
          let a, b = pair p and c, d = pair g in
          json_ranges := Some (a, b, c, d);
          json_label := label;
          Hashtbl.reset kinds;
          bump "j"
      | "X" :: _ -> report "CORR" ("poljson could not parse a configuration: " ^ line)
      | [ "K"; nm; cores ] -> (
          incr evals;
          bump "k";
          Hashtbl.replace distinct line ();
          match rhs with
          | [ "panic" ] -> report "ORACLE" (Printf.sprintf "classing %s cores=%s panicked" nm cores)
          | [ cl; "default"; d ] ->
              let cl =
                List.map
                  (fun s -> match String.split_on_char ':' s with [ c; k ] -> (int_of_string c, int_of_string k) | _ -> failwith ("K " ^ s))
                  (List.filter (fun s -> s <> "") (String.split_on_char ',' cl))
              in
              let d = int_of_string d and cores_i = int_of_string cores in
              Hashtbl.replace tables (nm, cores_i) (cl, d);
              (* ORACLE: the hypotheses of C09_new_ok on the compiled table *)
              if not (List.exists (fun (c, _) -> c = d) cl) then
                report "ORACLE" (Printf.sprintf "classing %s cores=%s: default %d is not a configured class [%s]" nm cores d (String.concat " " rhs));
              List.iter (fun (c, _) -> if c >= 8 then report "ORACLE" (Printf.sprintf "classing %s cores=%s: class id %d >= 8" nm cores c)) cl;
              (* CORR: the class tables of Requests.v *)
              let impl = String.concat " " rhs in
              let m =
                match nm with
                | "simple" -> Some (show_classing (simple_classing (n_of_int cores_i)))
                | "movable" -> Some (show_classing (movable_classing (n_of_int cores_i)))
                | _ -> None
              in
              (match m with
              | Some m when m <> impl -> report "CORR" (Printf.sprintf "classing %s cores=%s impl=[%s] model=[%s]" nm cores impl m)
              | _ -> ())
          | _ -> failwith ("policy: bad line " ^ line))
      | [ "P"; nm; r; t; f ] ->
          incr evals;
          Hashtbl.replace distinct ((if nm = "json" then !json_label ^ " " else "") ^ String.concat " " lhs) ();
          let impl = String.concat " " rhs in
          let ri = int_of_string r and ti = int_of_string t in
          bump ("p_" ^ kind_of rhs);
          let where = Printf.sprintf "policy %s%s requested=%s target=%s free=%s" nm (if nm = "json" then "[" ^ !json_label ^ "]" else "") r t f in
          (* CORR *)
          List.iter
            (fun m ->
              let m = show_pol m in
              if m <> impl then report "CORR" (Printf.sprintf "%s impl=[%s] model=[%s]" where impl m))
            (model_policy nm (n_of_int ri) (n_of_int ti) (n_of_dec f));
          (* ORACLE *)
          let k = kind_of rhs in
          if k = "panic" then report "ORACLE" (where ^ " panicked");
          if ri = ti && k <> "match" then report "ORACLE" (Printf.sprintf "%s: reflexive pair is not a match: [%s]" where impl);
          (match rhs with
          | [ "match"; n ] -> if int_of_string n > 255 then report "ORACLE" (where ^ ": rating above u8")
          | _ -> ());
          (match Hashtbl.find_opt kinds (nm, ri, ti) with
          | Some k0 when k0 <> k -> report "ORACLE" (Printf.sprintf "%s: kind depends on the free count: [%s] vs earlier %s" where impl k0)
          | Some _ -> ()
          | None -> Hashtbl.replace kinds (nm, ri, ti) k);
          if base nm <> "custom" then begin
            if ri > ti && k <> "steal" then report "ORACLE" (Printf.sprintf "%s: requested > target is not steal: [%s]" where impl);
            if ri < ti && k <> "demote" then report "ORACLE" (Printf.sprintf "%s: requested < target is not demote: [%s]" where impl);
            if k = "invalid" then report "ORACLE" (where ^ ": invalid")
          end
      | "Q" :: nm :: order :: core :: cores :: mv ->
          incr evals;
          bump "q";
          Hashtbl.replace distinct (String.concat " " lhs) ();
          let impl = String.concat " " rhs in
          let oi = int_of_string order and ci = int_of_string core and ki = int_of_string cores in
          let where = Printf.sprintf "request %s order=%s core=%s cores=%s%s" nm order core cores (match mv with [ m ] -> " movable=" ^ m | _ -> "") in
          (* CORR *)
          let m =
            match (nm, mv) with
            | "simple", [] -> simple_request (nat_of_int !hord) (n_of_int oi) (n_of_int ci) (n_of_int ki)
            | "movable", [ m ] -> movable_request (nat_of_int !hord) (n_of_int oi) (n_of_int ci) (n_of_int ki) (m = "1")
            | _ -> failwith ("policy: bad line " ^ line)
          in
          let ms = show_req m in
          if ms <> impl then report "CORR" (Printf.sprintf "%s impl=[%s] model=[%s]" where impl ms);
          (* ORACLE: against the compiled class table of the same constructor call *)
          (match rhs with
          | [ "panic" ] -> report "ORACLE" (where ^ " panicked")
          | [ o; c; l ] -> (
              if int_of_string o <> oi then report "ORACLE" (Printf.sprintf "%s: order not passed through: [%s]" where impl);
              bump (if l = "-" then "q_local_none" else "q_local_some");
              match Hashtbl.find_opt tables (nm, ki) with
              | None -> report "ORACLE" (where ^ ": no class table printed for this core count")
              | Some (cl, _) ->
                  let req = { r_order = nat_of_int (int_of_string o); r_class = n_of_dec c; r_local = (if l = "-" then None else Some (n_of_dec l)) } in
                  let tbl = List.map (fun (c, k) -> (n_of_int c, n_of_int k)) cl in
                  if not (request_valid_b tbl req) then
                    report "ORACLE"
                      (Printf.sprintf "%s: invalid request [%s] for the class table [%s]: %s" where impl
                         (String.concat "," (List.map (fun (c, k) -> Printf.sprintf "%d:%d" c k) cl))
                         (match slots_of tbl req.r_class with None -> "class is not a configured class" | Some k -> "slot index not below the slot count " ^ dec_of_n k)))
          | _ -> failwith ("policy: bad line " ^ line))
      | _ -> failwith ("policy: bad line " ^ line));
  Printf.printf "SUMMARY suite=%s evaluations=%d distinct=%d%s corr=%d oracle=%d\n" name !evals (Hashtbl.length distinct)
    (String.concat "" (List.sort compare (Hashtbl.fold (fun k v acc -> Printf.sprintf " %s=%d" k v :: acc) hist [])))
    (count "CORR") (count "ORACLE")

let () =
  match Array.to_list Sys.argv with
  | _ :: (("polrun" | "poljson") as name) :: file :: _ -> suite name file
  | _ ->
      prerr_endline "usage: policy.exe polrun|poljson <transcript>";
      exit 2
