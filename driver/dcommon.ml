(* Correspondence driver: replays transcripts written by the Rust harness through the
   extracted model and the extracted specifications.
   Output protocol (stdout): lines `MISMATCH <kind> <suite-specific text>` (kind = CORR when the
   implementation differs from the model, ORACLE when the implementation's own result violates
   the specification), then a final `SUMMARY key=value ...` line. *)

let max_report = 20
let mism = Hashtbl.create 7
let report kind text =
  let c = try Hashtbl.find mism kind with Not_found -> 0 in
  Hashtbl.replace mism kind (c + 1);
  if c < max_report then Printf.printf "MISMATCH %s %s\n" kind text
let count kind = try Hashtbl.find mism kind with Not_found -> 0

let split s = String.split_on_char ' ' (String.trim s) |> List.filter (fun x -> x <> "")

let iter_lines file f =
  let ic = if file = "-" then stdin else open_in file in
  (try
     while true do
       f (input_line ic)
     done
   with End_of_file -> ());
  if file <> "-" then close_in ic

