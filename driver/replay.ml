(* C20 suite: replay.  Transcript = blocks of lines
     T <name> <hdr_max_pfn> <cores> <classing>
     E <A|F> <pfn> <order> <cpu> <pid> <flags-hex>     events in time order
     H <held> <orphaned> <unknown> <reallocs> <partial> <ill>   Python reference (trace alone)
     R <rc> <free_frames> <total_frames> <free_failed>  the real `replay` binary; rc: 0 ok, 2 = get failed
                                                        (trace does not fit: discarded), other = crash
     .
   CORR   : exit status, free_frames, "Free failed" count of the binary vs the extracted model
            (replay_ff = repaired loop over the abstract allocator with a first-fit oracle); also the
            extracted trace specification vs the Python reference.
   ORACLE : free_frames = total_frames - frames the trace still holds (extracted trace_held, from the trace
            alone) and no failed free; independent of the replay model. *)
open Model
open Conv
open Dcommon

type cur = {
  mutable name : string; mutable hdr : int; mutable evs : event list; mutable text : string list;
  mutable h : int list; mutable r : int list }

let render c = String.concat " ; " (List.rev c.text)

let suite_replay file old =
  let evals = ref 0 and nevents = ref 0 and discarded = ref 0 and model_none = ref 0 and spec_none = ref 0 in
  let distinct = Hashtbl.create 10007 and all = Hashtbl.create 10007 in
  let c = { name = ""; hdr = 0; evs = []; text = []; h = []; r = [] } in
  let finish () =
    if c.name <> "" then begin
      let evs = List.rev c.evs in
      let key = render c in
      Hashtbl.replace all key ();
      let total = (c.hdr + 1 + 511) / 512 * 512 in
      let mp = n_of_int total in
      (match c.r with
       | [ rc; free; itotal; failed ] ->
           if rc = 2 then incr discarded
           else begin
             incr evals;
             nevents := !nevents + List.length evs;
             let where = Printf.sprintf "trace=%s events=%d [%s]" c.name (List.length evs)
                 (if String.length key > 300 then String.sub key 0 300 ^ " ..." else key) in
             if rc <> 0 then report "CORR" (Printf.sprintf "%s: replay exited abnormally (rc=%d)" where rc)
             else begin
               if itotal <> total then
                 report "CORR" (Printf.sprintf "%s: total_frames impl=%d model=%d" where itotal total);
               (* the extracted specification, from the trace alone *)
               (match trace_spec mp evs with
                | None -> incr spec_none
                | Some t ->
                    let held = int_of_n (tsum t.s_tab) + int_of_n (bsum t.s_orph) in
                    (match c.h with
                     | [ h; orph; unk; re; partial; ill ] ->
                         if partial > 0 then Hashtbl.replace distinct key ();
                         if ill = 0 && (h <> held || orph <> int_of_n (bsum t.s_orph) || unk <> int_of_n t.s_unknown
                                        || re <> int_of_n t.s_reallocs) then
                           report "CORR" (Printf.sprintf "%s: reference held=%d orphaned=%d unknown=%d reallocs=%d but extracted trace_spec held=%d orphaned=%d unknown=%d reallocs=%d"
                                            where h orph unk re held (int_of_n (bsum t.s_orph)) (int_of_n t.s_unknown) (int_of_n t.s_reallocs))
                     | _ -> ());
                    if free <> itotal - held || failed <> 0 then
                      report "ORACLE" (Printf.sprintf "%s: free_frames=%d free_failed=%d but total_frames - held = %d - %d = %d and every free inside a tracked allocation must succeed"
                                         where free failed itotal held (itotal - held)));
               (* the extracted model *)
               (match (if old then old_replay_ff mp evs else replay_ff mp evs) with
                | None -> incr model_none
                | Some s ->
                    let (((mfree, mfailed), _), _) = result mp s in
                    if int_of_n mfree <> free || int_of_n mfailed <> failed then
                      report "CORR" (Printf.sprintf "%s: impl free_frames=%d free_failed=%d model free_frames=%d free_failed=%d"
                                       where free failed (int_of_n mfree) (int_of_n mfailed)))
             end
           end
       | _ -> failwith ("replay: trace without R line: " ^ c.name))
    end;
    c.name <- ""; c.evs <- []; c.text <- []; c.h <- []; c.r <- []
  in
  iter_lines file (fun line ->
      match split line with
      | "T" :: name :: hdr :: _ -> finish (); c.name <- name; c.hdr <- int_of_string hdr
      | "E" :: k :: pfn :: order :: _ ->
          c.evs <- { e_alloc = (k = "A"); e_pfn = n_of_int (int_of_string pfn); e_order = nat_of_int (int_of_string order) } :: c.evs;
          c.text <- (k ^ " " ^ pfn ^ " " ^ order) :: c.text
      | "H" :: rest -> c.h <- List.map int_of_string rest
      | "R" :: rest -> c.r <- List.map int_of_string rest
      | "." :: _ -> finish ()
      | [] -> ()
      | w :: _ when String.length w > 0 && w.[0] = '#' -> ()
      | _ -> failwith ("replay: bad line " ^ line));
  finish ();
  Printf.printf "SUMMARY suite=replay evaluations=%d distinct=%d traces=%d events=%d discarded=%d model_none=%d spec_none=%d corr=%d oracle=%d\n"
    !evals (Hashtbl.length distinct) (Hashtbl.length all) !nevents !discarded !model_none !spec_none (count "CORR") (count "ORACLE")

let () =
  match Array.to_list Sys.argv with
  | _ :: "replay" :: file :: rest -> suite_replay file (List.mem "--old" rest)
  | _ ->
      prerr_endline "usage: replay.exe replay <transcript> [--old]";
      exit 2
