(* Small-step correspondence driver of the lower allocator (machine M1, LowerMachine.v).
   Replays the transcripts of harness/src/bin/schedrun.rs on the extracted machine:
     CFG   -> boot (free_all | reserve_all + alloc_all_held)
     PRE   -> the prologue call runs solo on machine thread 0                      CORR[pre]
     CALL  -> mstep of the idle thread starts the call (no event)                  CORR[call]
     S     -> mstep of the running thread; the event is compared field by field     CORR[step]
     RET   -> the machine thread's state (TIdle (Some r) / TPanic site)             CORR[ret]
     SNAP  -> lower_recover of the machine's memory = the recovered buffer          CORR[snap]
     END   -> memory and the ghost held list                                        CORR[mem] CORR[held]
   Oracles on the implementation's own results, independent of the machine (tags name the property):
     [C01] blocks handed out and not yet freed are aligned, in range, pairwise disjoint (after every RET)
     [C03] no panic; every free of a held block returns ok
     [C05] every SNAP: lower_invb of the recovered state, held blocks still allocated and freeable
           (spec_put_enabled on abs), frames that were free and not touched by an in-flight call are
           free, recovered stats = accounting of abs
     [C18] every access of the compiled code (S line) names a word with in-range indices (bitfield < nbf, row < ROWS,
           entry < ntab * TREE_HUGE) and an aligned 8/16/32/64-bit lane inside its row (AccessBoundsDef.v)
     [C21] every SOLO run ends within the bound and not in a wait-panic
   Per run at most one CORR message (the first divergence; the machine is then dropped for the run).
   usage: step.exe step <transcript|-> [keys-file]
   keys-file: one line per non-trivial schedule (hash), for merging `distinct` across shards. *)
open Model
open Conv
open Dcommon

(* ---------- reporting: per (kind, tag) limits, own counters ---------- *)
let per_tag_limit = try int_of_string (Sys.getenv "STEP_LIMIT") with _ -> 12
let tag_counts : (string, int) Hashtbl.t = Hashtbl.create 17
let kind_counts : (string, int) Hashtbl.t = Hashtbl.create 7
let bump h k = Hashtbl.replace h k (1 + try Hashtbl.find h k with Not_found -> 0)
let get h k = try Hashtbl.find h k with Not_found -> 0

(* the print limit is per (kind, tag, scenario): the known findings of one scenario cannot crowd out another scenario *)
let print_counts : (string, int) Hashtbl.t = Hashtbl.create 97
let emit ?(scope = "") kind tag text =
  bump kind_counts kind;
  let key = kind ^ tag in
  bump tag_counts key;
  let pkey = key ^ "|" ^ scope in
  bump print_counts pkey;
  if get print_counts pkey <= per_tag_limit then
    if kind = "NOTE" then Printf.printf "NOTE %s %s\n" tag text else Printf.printf "MISMATCH %s %s %s\n" kind tag text

(* ---------- small helpers ---------- *)
let contains s sub =
  let n = String.length s and m = String.length sub in
  let rec go i = i + m <= n && (String.sub s i m = sub || go (i + 1)) in
  m = 0 || go 0

let kv tokens key =
  let p = key ^ "=" in
  let pl = String.length p in
  List.fold_left
    (fun acc t -> if String.length t >= pl && String.sub t 0 pl = p then Some (String.sub t pl (String.length t - pl)) else acc)
    None tokens

let kv_exn tokens key = match kv tokens key with Some v -> v | None -> failwith ("missing " ^ key)
let rec log2 n = if n <= 1 then 0 else 1 + log2 (n / 2)
let rec nth_opt l i = match l with [] -> None | a :: r -> if i = 0 then Some a else nth_opt r (i - 1)

let parse_ents s = List.map n_of_hex (String.split_on_char ',' s)
let parse_rows s = List.map (fun b -> List.map n_of_hex (String.split_on_char ',' b)) (String.split_on_char ';' s)
let show_ents l = String.concat "," (List.map hex_of_n l)
let show_rows l = String.concat ";" (List.map (fun b -> String.concat "," (List.map hex_of_n b)) l)

let show_site = function
  | SUndoFailedAll -> "SUndoFailedAll" | SFailedUndoToggle -> "SFailedUndoToggle" | SFailedUndoSearch -> "SFailedUndoSearch"
  | SRowOrder -> "SRowOrder" | SSetCrosses -> "SSetCrosses" | SIndex k -> "SIndex" ^ dec_of_n k | SUndoFailed -> "SUndoFailed"
  | SUndoUnwrap -> "SUndoUnwrap" | SIsFreeAssert -> "SIsFreeAssert" | SSplitLast -> "SSplitLast"
  | SReserveAllSub -> "SReserveAllSub" | SIncFailed -> "SIncFailed" | SFailedPartialClear -> "SFailedPartialClear"
  | SExceedingRetries -> "SExceedingRetries" | _ -> "S?"

(* text that the panic message of the implementation must contain *)
let site_text = function
  | SUndoFailedAll -> "undo failed" | SFailedUndoToggle -> "Failed undo toggle" | SFailedUndoSearch -> "Failed undo search"
  | SIndex _ -> "index out of bounds" | SUndoFailed -> "Undo failed" | SUndoUnwrap -> "unwrap" | SIncFailed -> "Inc failed"
  | SFailedPartialClear -> "Failed partial clear" | SExceedingRetries -> "Exceeding retries" | _ -> "\000"

let show_pc = function
  | G1L _ -> "G1L" | G1C _ -> "G1C" | G2L _ -> "G2L" | G2C _ -> "G2C" | G2R _ -> "G2R" | G2W _ -> "G2W" | G2U _ -> "G2U"
  | G3L _ -> "G3L" | G3C _ -> "G3C" | HC _ -> "HC" | HU _ -> "HU" | A1L -> "A1L" | A1C _ -> "A1C" | A3L -> "A3L" | A3C _ -> "A3C"
  | TL _ -> "TL" | TC _ -> "TC" | TN _ -> "TN" | TW _ -> "TW" | TU _ -> "TU" | P1 -> "P1" | PP2 _ -> "PP2" | PP3 _ -> "PP3"
  | PS2L -> "PS2L" | PS2C _ -> "PS2C"

let show_thr is_put = function
  | TIdle None -> "idle(none)"
  | TIdle (Some (Ok f)) -> if is_put then "ok" else "ok " ^ dec_of_n f
  | TIdle (Some (Err EMemory)) -> "err mem"
  | TIdle (Some (Err EArgument)) -> "err arg"
  | TIdle (Some (Err EInit)) -> "err init"
  | TIdle (Some (Panic s)) -> "panic-result " ^ show_site s
  | TRun (_, p) -> "running at " ^ show_pc p
  | TPanic (s, _) -> "panic " ^ show_site s

(* ---------- per-run state ---------- *)
type icall = IGet of int * int | IGetAt of int * int | IPut of int * int

let show_icall = function
  | IGet (s, o) -> Printf.sprintf "get %d %d" s o
  | IGetAt (f, o) -> Printf.sprintf "getat %d %d" f o
  | IPut (f, o) -> Printf.sprintf "put %d %d" f o

let parse_icall = function
  | "get" :: s :: o :: _ -> IGet (int_of_string s, int_of_string o)
  | "getat" :: f :: o :: _ -> IGetAt (int_of_string f, int_of_string o)
  | "put" :: f :: o :: _ -> IPut (int_of_string f, int_of_string o)
  | l -> failwith ("bad call " ^ String.concat " " l)

let mcall = function
  | IGet (s, o) -> CGet (n_of_int s, nat_of_int o)
  | IGetAt (f, o) -> CGetAt (n_of_int f, nat_of_int o)
  | IPut (f, o) -> CPut (n_of_int f, nat_of_int o)

type run = {
  mutable id : string;
  mutable scenario : string;
  mutable mode : string;
  mutable cfg : string;
  mutable g : geom;
  mutable hf : int;
  mutable tf : int;
  mutable thuge : int;
  mutable rows : int;
  mutable nframes : int;
  mutable nthreads : int;
  mutable ms : mstate option;          (* None: no machine (before CFG, or after the first divergence) *)
  mutable diverged : bool;
  mutable cur : icall option array;    (* call in flight per thread *)
  mutable iheld : (int * int) list;    (* blocks held by the client, from the implementation's results *)
  mutable limbo : (icall * bool) list; (* calls that panicked (+ saw-marker flag): their blocks stay 'touched' for the rest of the run *)
  mutable sawmark : bool array;        (* the in-flight small-order put of the thread read the marker at its first load *)
  mutable firststep : bool array;      (* the next S of the thread is the first access of its call *)
  mutable msgs : (string * string * string) list;   (* kind, tag, text: flushed with the schedule at END *)
  mutable sched : string;
  mutable tids : Buffer.t;
  mutable nontrivial : bool;
  mutable prev : int;
  mutable nsteps : int;
  mutable active : bool;
}

let r =
  { id = ""; scenario = ""; mode = ""; cfg = ""; g = { hord = nat_of_int 9; tlog = nat_of_int 2 }; hf = 512; tf = 2048;
    thuge = 4; rows = 8; nframes = 0; nthreads = 0; ms = None; diverged = false; cur = [||]; iheld = []; limbo = []; sawmark = [||]; firststep = [||]; msgs = [];
    sched = "?"; tids = Buffer.create 64; nontrivial = false; prev = -1; nsteps = 0; active = false }

(* summary counters *)
let evals = ref 0
let runs = ref 0
let snaps = ref 0
let solos = ref 0
let solomax = ref 0
let panics = ref 0
let known_panics = ref 0
let xlines = ref 0
let maxsteps = ref 0
let pre_calls = ref 0
let failed_cas = ref 0
let scn_hist : (string, int) Hashtbl.t = Hashtbl.create 97
let mode_hist : (string, int) Hashtbl.t = Hashtbl.create 7
let distinct : (string, unit) Hashtbl.t = Hashtbl.create 100000
let corr_runs = ref 0

let note kind tag text = r.msgs <- (kind, tag, text) :: r.msgs
let oracle tag text = note "ORACLE" tag text

let corr tag text =
  (* only the first divergence of a run is reported; the machine is dropped afterwards *)
  if not r.diverged then begin
    r.diverged <- true;
    incr corr_runs;
    note "CORR" tag text
  end;
  r.ms <- None

let flush_run () =
  if r.active then begin
    (* an HFAIL line of the harness that the driver's own oracle of the same property confirms is not repeated *)
    let is_h (_, _, text) = String.length text >= 8 && String.sub text 0 8 = "harness:" in
    let own = List.filter (fun m -> not (is_h m)) r.msgs in
    r.msgs <- List.filter (fun ((k, tag, _) as m) -> not (is_h m) || not (List.exists (fun (k', tag', _) -> k' = k && tag' = tag) own)) r.msgs;
    List.iter
      (fun (kind, tag, text) ->
        emit ~scope:r.scenario kind tag (Printf.sprintf "scenario=%s cfg=%s run=%s mode=%s %s sched=%s" r.scenario r.cfg r.id r.mode text r.sched))
      (List.rev r.msgs);
    if r.nontrivial then Hashtbl.replace distinct (Digest.to_hex (Digest.string (r.scenario ^ "|" ^ r.cfg ^ "|" ^ Buffer.contents r.tids))) ();
    if r.nsteps > !maxsteps then maxsteps := r.nsteps;
    r.active <- false;
    r.msgs <- []
  end

(* ---------- the client's blocks, derived from the implementation's results only ---------- *)
let overlap (f, o) (f', o') = f < f' + (1 lsl o') && f' < f + (1 lsl o)

let check_new_block (f, o) ctx =
  if f land ((1 lsl o) - 1) <> 0 then oracle "[C01]" (Printf.sprintf "misaligned block: %s -> frame %d order %d" ctx f o);
  if f + (1 lsl o) > r.nframes then oracle "[C01]" (Printf.sprintf "block out of range: %s -> frame %d order %d (frames %d)" ctx f o r.nframes);
  List.iter
    (fun b ->
      if overlap b (f, o) then
        oracle "[C01]" (Printf.sprintf "overlap: %s -> frame %d order %d overlaps held block frame %d order %d" ctx f o (fst b) (snd b)))
    r.iheld;
  r.iheld <- (f, o) :: r.iheld

(* the client frees (f,o): a held block, part of a held block (split), or several held blocks *)
let take_block (f, o) =
  let inside (bf, bo) = bo >= o && bf <= f && f + (1 lsl o) <= bf + (1 lsl bo) in
  match List.filter inside r.iheld with
  | ((_, bo) as b) :: _ ->
      let rest = List.filter (fun x -> x <> b) r.iheld in
      let rec sib k acc = if k >= bo then acc else sib (k + 1) ((((f lsr k) lxor 1) lsl k, k) :: acc) in
      r.iheld <- sib o rest;
      true
  | [] ->
      let within (bf, bo) = bf >= f && bf + (1 lsl bo) <= f + (1 lsl o) in
      let ins = List.filter within r.iheld in
      if List.fold_left (fun a (_, bo) -> a + (1 lsl bo)) 0 ins = 1 lsl o then begin
        r.iheld <- List.filter (fun b -> not (within b)) r.iheld;
        true
      end
      else false

(* ---------- machine helpers ---------- *)
let thread ms t = nth_opt ms.ms_pool t

let boot_run tokens =
  let ho = int_of_string (kv_exn tokens "huge_order") in
  let th = int_of_string (kv_exn tokens "tree_huge") in
  let fr = int_of_string (kv_exn tokens "frames") in
  let init = kv_exn tokens "init" in
  let nt = int_of_string (kv_exn tokens "threads") in
  let g = { hord = nat_of_int ho; tlog = nat_of_int (log2 th) } in
  r.g <- g;
  r.hf <- 1 lsl ho;
  r.thuge <- th;
  r.tf <- th lsl ho;
  r.rows <- (1 lsl ho) / 64;
  r.nframes <- fr;
  r.nthreads <- nt;
  r.cfg <- Printf.sprintf "th%d/%d/%s" th fr init;
  r.cur <- Array.make nt None;
  r.sawmark <- Array.make nt false;
  r.firststep <- Array.make nt false;
  let frn = n_of_int fr in
  let l, held = if init = "alloc" then (reserve_all g frn, alloc_all_held g frn) else (free_all g frn, []) in
  r.ms <- Some (boot l held (nat_of_int nt));
  r.iheld <-
    (if init = "alloc" then
       List.init (fr / r.hf) (fun h -> (h * r.hf, ho)) @ List.init (fr mod r.hf) (fun i -> ((fr / r.hf * r.hf) + i, 0))
     else [])

(* a prologue call: solo on thread 0 *)
let run_pre call impl =
  incr pre_calls;
  (match r.ms with
  | None -> ()
  | Some ms -> (
      let c = mcall call in
      let t0 = O in
      let ms1, _ = mstep r.g ms t0 c in
      match thread ms1 0 with
      | Some (TRun _) ->
          let rec go ms fuel =
            match thread ms 0 with
            | Some (TRun _) when fuel > 0 -> go (fst (mstep r.g ms t0 c)) (fuel - 1)
            | _ -> ms
          in
          let ms2 = go ms1 100000 in
          r.ms <- Some ms2;
          let is_put = match call with IPut _ -> true | _ -> false in
          let m = match thread ms2 0 with Some th -> show_thr is_put th | None -> "?" in
          if m <> impl then corr "[pre]" (Printf.sprintf "prologue %s impl=[%s] machine=[%s]" (show_icall call) impl m)
      | _ -> corr "[pre]" (Printf.sprintf "prologue %s: the machine does not start the call (impl=[%s])" (show_icall call) impl)));
  (* the client's blocks *)
  match (call, impl) with
  | (IGet (_, o) | IGetAt (_, o)), _ when String.length impl > 3 && String.sub impl 0 3 = "ok " ->
      check_new_block (int_of_string (String.sub impl 3 (String.length impl - 3)), o) ("prologue " ^ show_icall call)
  | IPut (f, o), _ ->
      if not (take_block (f, o)) then note "CORR" "[scenario]" (Printf.sprintf "prologue frees a block that is not held: put %d %d" f o)
      else if impl <> "ok" then oracle "[C03]" (Printf.sprintf "prologue: free of a held block returned [%s]: put %d %d" impl f o)
  | _ -> ()

let sched_step tid =
  (* preemption in the middle of a call: the previous thread still has a call in flight *)
  if r.prev >= 0 && r.prev <> tid && r.prev < Array.length r.cur && r.cur.(r.prev) <> None then r.nontrivial <- true;
  r.prev <- tid;
  Buffer.add_string r.tids (string_of_int tid);
  Buffer.add_char r.tids ','

let do_call tid call =
  sched_step tid;
  if tid >= r.nthreads then failwith "CALL: thread id out of range";
  r.cur.(tid) <- Some call;
  r.sawmark.(tid) <- false;
  r.firststep.(tid) <- true;
  (match call with
  | IPut (f, o) ->
      if not (take_block (f, o)) then note "CORR" "[scenario]" (Printf.sprintf "thread %d frees a block that is not held: put %d %d" tid f o)
  | _ -> ());
  match r.ms with
  | None -> ()
  | Some ms -> (
      let ms1, ev = mstep r.g ms (nat_of_int tid) (mcall call) in
      match (ev, thread ms1 tid) with
      | None, Some (TRun _) -> r.ms <- Some ms1
      | _, th ->
          corr "[call]"
            (Printf.sprintf "thread %d %s: the machine does not start the call (thread state: %s)" tid (show_icall call)
               (match th with Some x -> show_thr false x | None -> "no such thread")))

let show_event e =
  Printf.sprintf "%s %s %s %s %s %s %s %s %d"
    (match e.ev_kind with KLoad -> "load" | KCas -> "cas")
    (if e.ev_ent then "ent" else "row")
    (dec_of_n e.ev_h) (dec_of_n e.ev_r) (dec_of_n e.ev_off) (dec_of_n e.ev_width) (hex_of_n e.ev_val)
    (match e.ev_kind with KLoad -> "-" | KCas -> hex_of_n e.ev_new)
    (if e.ev_ok then 1 else 0)

let do_step tid line fields =
  incr evals;
  r.nsteps <- r.nsteps + 1;
  sched_step tid;
  match fields with
  | [ kind; what; h; row; off; width; found; nw; ok ] -> (
      (* C18: the word the compiled code accessed has in-range indices and an aligned lane inside its row *)
      (let fr = n_of_int r.nframes in
       let okb =
         match what with
         | "row" -> row_idx_okb r.g fr (n_of_dec h) (n_of_dec row) (n_of_dec off) (n_of_dec width)
         | "ent" -> ent_idx_okb r.g fr (n_of_dec h) (n_of_dec off) (n_of_dec width) && row = "0"
         | _ -> false
       in
       if not okb then oracle "[C18]" (Printf.sprintf "step %d: access outside the index / lane bounds of the lower buffer: %s" r.nsteps line));
      if tid < Array.length r.firststep && r.firststep.(tid) then begin
        r.firststep.(tid) <- false;
        (match r.cur.(tid) with
        | Some (IPut (_, o)) when o < int_of_nat r.g.hord && kind = "load" && what = "ent" && found = "ffff" -> r.sawmark.(tid) <- true
        | _ -> ())
      end;
      if kind = "cas" && ok = "0" then begin
        r.nontrivial <- true;
        incr failed_cas
      end;
      match r.ms with
      | None -> ()
      | Some ms -> (
          let c = match r.cur.(tid) with Some c -> mcall c | None -> CGet (N0, O) in
          let ms1, ev = mstep r.g ms (nat_of_int tid) c in
          match ev with
          | None ->
              corr "[step]"
                (Printf.sprintf "step %d: impl=[%s] but the machine thread makes no access (state: %s)" r.nsteps line
                   (match thread ms tid with Some x -> show_thr false x | None -> "?"))
          | Some e ->
              let diffs = ref [] in
              let d name a b = if a <> b then diffs := Printf.sprintf "%s impl=%s machine=%s" name a b :: !diffs in
              d "kind" kind (match e.ev_kind with KLoad -> "load" | KCas -> "cas");
              d "target" what (if e.ev_ent then "ent" else "row");
              d "huge" h (dec_of_n e.ev_h);
              d "row" row (dec_of_n e.ev_r);
              d "offset" off (dec_of_n e.ev_off);
              d "width" width (dec_of_n e.ev_width);
              d "found" found (hex_of_n e.ev_val);
              d "ok" ok (if e.ev_ok then "1" else "0");
              (* the value a failed CAS wanted to write is not observable through the hooks *)
              if e.ev_kind = KCas && nw <> "-" then d "new" nw (hex_of_n e.ev_new);
              if !diffs <> [] then
                corr "[step]"
                  (Printf.sprintf "step %d thread %d %s: impl=[%s] machine=[S %d %s] differ in: %s" r.nsteps tid
                     (match r.cur.(tid) with Some c -> show_icall c | None -> "?")
                     line tid (show_event e)
                     (String.concat "; " (List.rev !diffs)))
              else r.ms <- Some ms1))
  | _ -> failwith ("bad S line: " ^ line)

let do_ret tid impl =
  if tid >= r.nthreads then failwith "RET: thread id out of range";
  let call = match r.cur.(tid) with Some c -> c | None -> failwith "RET without CALL" in
  r.cur.(tid) <- None;
  let is_put = match call with IPut _ -> true | _ -> false in
  let is_panic = String.length impl >= 5 && String.sub impl 0 5 = "panic" in
  (* correspondence *)
  (match r.ms with
  | None -> ()
  | Some ms -> (
      match thread ms tid with
      | Some (TPanic (s, _)) ->
          if not (is_panic && contains impl (site_text s)) then
            corr "[ret]" (Printf.sprintf "thread %d %s returns impl=[%s] machine=[panic %s]" tid (show_icall call) impl (show_site s))
      | Some th ->
          let m = show_thr is_put th in
          if m <> impl then corr "[ret]" (Printf.sprintf "thread %d %s returns impl=[%s] machine=[%s]" tid (show_icall call) impl m)
      | None -> corr "[ret]" "no such machine thread"));
  (* oracles *)
  if is_panic then begin
    incr panics;
    r.limbo <- (call, r.sawmark.(tid)) :: r.limbo;
    if contains impl "Exceeding retries" then incr known_panics;
    oracle "[C03]" (Printf.sprintf "thread %d %s: %s" tid (show_icall call) impl)
  end;
  match call with
  | IGet (_, o) | IGetAt (_, o) ->
      if String.length impl > 3 && String.sub impl 0 3 = "ok " then
        check_new_block (int_of_string (String.sub impl 3 (String.length impl - 3)), o) (Printf.sprintf "thread %d %s" tid (show_icall call))
  | IPut (f, o) ->
      if (not is_panic) && impl <> "ok" then
        oracle "[C03]" (Printf.sprintf "thread %d: free of a held block returned [%s]: put %d %d" tid impl f o)

(* ---------- C05: a crash here ---------- *)
let bits_array (x : n) (len : int) : bool array =
  let a = Array.make len false in
  List.iteri (fun i b -> if i < len && b = 1 then a.(i) <- true) (bits_of_n x);
  a

(* can the frames of `l` (sorted) be covered by one aligned block per in-flight get? *)
let rec cover (l : int list) (gets : icall list) : bool =
  match l with
  | [] -> true
  | x :: _ ->
      let try_get gcall =
        let blk =
          match gcall with
          | IGet (s, o) ->
              let t = s * 64 / r.tf in
              if x / r.tf = t then Some (x land lnot ((1 lsl o) - 1), o) else None
          | IGetAt (f, o) -> if f <= x && x < f + (1 lsl o) then Some (f, o) else None
          | IPut _ -> None
        in
        match blk with
        | None -> false
        | Some (bf, bo) ->
            let rest = List.filter (fun y -> y < bf || y >= bf + (1 lsl bo)) l in
            let rec remove_one = function [] -> [] | a :: q -> if a == gcall then q else a :: remove_one q in
            cover rest (remove_one gets)
      in
      List.exists try_get gets

let snap_memo : (string, (string * string * string) list) Hashtbl.t = Hashtbl.create 4096
let snap_hits = ref 0

let replace_all s sub by =
  let n = String.length sub in
  let b = Buffer.create (String.length s) in
  let i = ref 0 in
  while !i < String.length s do
    if !i + n <= String.length s && String.sub s !i n = sub then (Buffer.add_string b by; i := !i + n)
    else (Buffer.add_char b s.[!i]; incr i)
  done;
  Buffer.contents b

(* the checks of one snapshot; results (with @STEP@ for the step number) are memoised on everything they depend on *)
let snap_checks rest inflight mem : (string * string * string) list =
  let out = ref [] in
  let add kind tag text = out := (kind, tag, text) :: !out in
  let ents = parse_ents (kv_exn rest "ents") and rows = parse_rows (kv_exn rest "rows") in
  let l = { frames = n_of_int r.nframes; bfs = rows; ents } in
  let where = Printf.sprintf "snapshot at step @STEP@ (in flight: %s)" inflight in
  (* correspondence of recover with the model, on the machine's memory *)
  (match mem with
  | Some ml ->
      let m = lower_recover r.g ml in
      if show_ents m.ents <> show_ents ents || show_rows m.bfs <> show_rows rows then
        add "CORR" "[snap]"
          (Printf.sprintf "%s: recovered impl=[ents=%s rows=%s] model=[ents=%s rows=%s]" where (show_ents ents) (show_rows rows)
             (show_ents m.ents) (show_rows m.bfs))
  | None -> ());
  if not (lower_invb r.g l) then
    add "ORACLE" "[C05]" (Printf.sprintf "%s: lower_invb fails on the recovered state ents=%s rows=%s" where (show_ents ents) (show_rows rows));
  let a = abs r.g l in
  List.iter
    (fun (f, o) ->
      if not (spec_put_enabled r.g a (n_of_int f) (nat_of_int o)) then
        add "ORACLE" "[C05]" (Printf.sprintf "%s: held block frame %d order %d is not allocated/freeable after recovery" where f o))
    r.iheld;
  let alloc = bits_array a.o_alloc r.nframes in
  let owned = Array.make r.nframes false in
  let mark (f, o) = for i = f to min (r.nframes - 1) (f + (1 lsl o) - 1) do owned.(i) <- true done in
  List.iter mark r.iheld;
  let gets = ref [] in
  let touch = function IPut (f, o) -> mark (f, o) | c -> gets := c :: !gets in
  Array.iter (function Some c -> touch c | None -> ()) r.cur;
  List.iter (fun (c, _) -> touch c) r.limbo;
  let leaked_of owned =
    let l = ref [] in
    for i = r.nframes - 1 downto 0 do
      if alloc.(i) && not owned.(i) then l := i :: !l
    done;
    !l
  in
  let strict = leaked_of owned in
  (* a partial free that observed the marker (it takes the split path: fills the whole bitfield, or waits
     for the splitter) touches its whole huge frame until it returns *)
  let owned2 = Array.copy owned in
  let split_h = ref [] in
  let see c saw = match c with IPut (f, _) when saw -> split_h := (f / r.hf) :: !split_h | _ -> () in
  Array.iteri (fun t c -> match c with Some c -> see c r.sawmark.(t) | None -> ()) r.cur;
  List.iter (fun (c, saw) -> see c saw) r.limbo;
  List.iter (fun h -> for i = h * r.hf to min (r.nframes - 1) (((h + 1) * r.hf) - 1) do owned2.(i) <- true done) !split_h;
  let leaked = leaked_of owned2 in
  if not (cover leaked !gets) then
    add "ORACLE" "[C05]"
      (Printf.sprintf "%s: %d frames that were free and untouched are allocated after recovery (first: %d)" where (List.length leaked)
         (List.hd leaked))
  else if not (cover strict !gets) then
    (* observation (DESIGN.md): a crash in this window leaks free frames of the huge frame being split *)
    add "NOTE" "stale-split-leak"
      (Printf.sprintf "%s: %d free frames outside the in-flight partial free's own block are allocated after recovery (first: %d); all inside the huge frame it is splitting"
         where (List.length strict) (List.hd strict));
  (match kv rest "stats" with
  | Some s -> (
      match String.split_on_char ',' s with
      | [ ff; fh; _ft ] ->
          let ef = dec_of_n (exact_free a) and eh = dec_of_n (free_huge_count r.g a) in
          if ff <> ef then add "ORACLE" "[C05]" (Printf.sprintf "%s: recovered stats free_frames=%s but abs has %s free frames" where ff ef);
          if fh <> eh then add "ORACLE" "[C05]" (Printf.sprintf "%s: recovered stats free_huge=%s but abs has %s free huge frames" where fh eh)
      | _ -> failwith "bad stats")
  | None -> ());
  List.rev !out

let do_snap tokens =
  incr snaps;
  match tokens with
  | step :: "panic" :: rest -> oracle "[C05]" (Printf.sprintf "snapshot %s: recovery panics: %s" step (String.concat " " rest))
  | step :: rest ->
      let calls l = String.concat ", " l in
      let inflight =
        calls
          (List.filter_map (fun x -> x)
             (Array.to_list
                (Array.mapi
                   (fun t c -> match c with Some c -> Some (Printf.sprintf "t%d %s%s" t (show_icall c) (if r.sawmark.(t) then " (saw marker)" else "")) | None -> None)
                   r.cur))
          @ List.map (fun (c, saw) -> "panicked " ^ show_icall c ^ if saw then " (saw marker)" else "") r.limbo)
      in
      let mem = match r.ms with Some ms -> Some (lower_of ms) | None -> None in
      let key =
        String.concat "|"
          [ r.cfg; String.concat " " rest; inflight;
            String.concat " " (List.map (fun (f, o) -> Printf.sprintf "%d/%d" f o) (List.sort compare r.iheld));
            (match mem with Some m -> show_ents m.ents ^ " " ^ show_rows m.bfs | None -> "-") ]
      in
      let res =
        match Hashtbl.find_opt snap_memo key with
        | Some x -> incr snap_hits; x
        | None ->
            let x = snap_checks rest inflight mem in
            Hashtbl.replace snap_memo key x;
            x
      in
      List.iter
        (fun (kind, tag, text) ->
          let text = replace_all text "@STEP@" step in
          if kind = "CORR" then corr tag text else note kind tag text)
        res
  | [] -> failwith "bad SNAP"

let do_solo tokens =
  incr solos;
  match tokens with
  | tid :: rest ->
      let steps = int_of_string (kv_exn rest "steps") in
      (* the bound proved in Progress.v: bound g = thuge * (5 * rows + 7) + 4 * rows + 15 *)
      let bound = (r.thuge * ((5 * r.rows) + 7)) + (4 * r.rows) + 15 in
      if steps > !solomax then solomax := steps;
      let res =
        let rec after = function [] -> "" | t :: q -> if String.length t >= 7 && String.sub t 0 7 = "result=" then String.concat " " (String.sub t 7 (String.length t - 7) :: q) else after q in
        after rest
      in
      let at = match kv rest "frozen_at" with Some s -> s | None -> "?" in
      if steps > bound then oracle "[C21]" (Printf.sprintf "thread %s frozen at step %s runs alone for %d steps (bound %d)" tid at steps bound);
      if contains res "panic" then
        oracle (if contains res "Exceeding retries" then "[C21]" else "[C03]")
          (Printf.sprintf "thread %s frozen at step %s, running alone, ends in %s" tid at res)
  | [] -> failwith "bad SOLO"

let do_end tokens =
  (match r.ms with
  | Some ms ->
      let ie = kv_exn tokens "ents" and ir = kv_exn tokens "rows" in
      let me = show_ents ms.ms_ents and mr = show_rows ms.ms_bfs in
      if ie <> me || ir <> mr then corr "[mem]" (Printf.sprintf "final memory impl=[ents=%s rows=%s] machine=[ents=%s rows=%s]" ie ir me mr)
      else begin
        let norm l = List.sort compare l in
        let mh = norm (List.map (fun (f, o) -> (int_of_n f, int_of_nat o)) ms.ms_held) in
        if mh <> norm r.iheld then
          corr "[held]"
            (Printf.sprintf "held blocks impl=[%s] machine=[%s]"
               (String.concat " " (List.map (fun (f, o) -> Printf.sprintf "%d/%d" f o) (norm r.iheld)))
               (String.concat " " (List.map (fun (f, o) -> Printf.sprintf "%d/%d" f o) mh)));
        if not (held_ok ms) then corr "[held]" "held_ok fails on the machine state"
      end
  | None -> ());
  flush_run ()

let tag_of_hfail text =
  if contains text "overlap" || contains text "misaligned" || contains text "out of range" then "[C01]"
  else if contains text "solo" || contains text "step limit" then "[C21]"
  else if contains text "scenario" then "[scenario]"
  else "[C03]"

let suite_step file keys =
  iter_lines file (fun line ->
      match split line with
      | "S" :: tid :: fields -> do_step (int_of_string tid) line fields
      | "CALL" :: tid :: c -> do_call (int_of_string tid) (parse_icall c)
      | "RET" :: tid :: res -> do_ret (int_of_string tid) (String.concat " " res)
      | "RUN" :: id :: rest ->
          flush_run ();
          incr runs;
          r.active <- true;
          r.id <- id;
          r.scenario <- kv_exn rest "scenario";
          r.mode <- kv_exn rest "mode";
          r.ms <- None;
          r.diverged <- false;
          r.iheld <- [];
          r.limbo <- [];
          r.sched <- "?";
          Buffer.clear r.tids;
          r.nontrivial <- false;
          r.prev <- -1;
          r.nsteps <- 0;
          bump scn_hist r.scenario;
          bump mode_hist r.mode
      | "CFG" :: rest -> boot_run rest
      | "PRE" :: k :: a :: b :: res -> run_pre (parse_icall [ k; a; b ]) (String.concat " " res)
      | "SNAP" :: rest -> do_snap rest
      | "SOLO" :: rest -> do_solo rest
      | "SCHED" :: s -> r.sched <- String.concat "" s
      | "END" :: rest -> do_end rest
      | "HFAIL" :: rest ->
          let t = String.concat " " rest in
          let tag = tag_of_hfail t in
          if tag = "[scenario]" then note "CORR" tag ("harness: " ^ t) else oracle tag ("harness: " ^ t)
      | "END-ABORTED" :: _ -> ()   (* the harness gave up on a run whose solo call does not terminate (HFAIL line precedes) *)
      | "X" :: _ -> incr xlines
      | [] -> ()
      | ("#" :: _) -> ()
      | _ -> failwith ("step: bad line " ^ line));
  flush_run ();
  (match keys with
  | Some f ->
      let oc = open_out f in
      Hashtbl.iter (fun k () -> output_string oc (k ^ "\n")) distinct;
      close_out oc
  | None -> ());
  let hist h prefix = String.concat " " (List.sort compare (Hashtbl.fold (fun k v acc -> Printf.sprintf "%s%s=%d" prefix k v :: acc) h [])) in
  Printf.printf
    "SUMMARY suite=step evaluations=%d distinct=%d runs=%d maxsteps=%d failed_cas=%d pre=%d snaps=%d solos=%d solomax=%d panics=%d known_panics=%d xlines=%d corr=%d oracle=%d corr_runs=%d c01=%d c03=%d c05=%d c18=%d c21=%d stale_split_leaks=%d %s %s\n"
    !evals (Hashtbl.length distinct) !runs !maxsteps !failed_cas !pre_calls !snaps !solos !solomax !panics !known_panics !xlines
    (get kind_counts "CORR") (get kind_counts "ORACLE") !corr_runs (get tag_counts "ORACLE[C01]") (get tag_counts "ORACLE[C03]")
    (get tag_counts "ORACLE[C05]") (get tag_counts "ORACLE[C18]") (get tag_counts "ORACLE[C21]") (get tag_counts "NOTEstale-split-leak") (hist mode_hist "mode:") (hist scn_hist "scn:")

let () =
  match Array.to_list Sys.argv with
  | _ :: "step" :: file :: rest -> suite_step file (match rest with k :: _ -> Some k | [] -> None)
  | _ ->
      prerr_endline "usage: step.exe step <transcript|-> [keys-file]";
      exit 2
