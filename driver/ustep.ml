(* Small-step correspondence driver of the WHOLE allocator (machine M2, UpperMachine.v, which embeds M1).
   Replays the `--api upper` transcripts of harness/src/bin/schedrun.rs on the extracted machine:
     CFG   -> llfree_new (FreeAll | AllocAll, classing, default class) + uboot; policy = pol_select
     PRE   -> the prologue call runs solo on machine thread 0                        CORR[pre]
     CALL  -> ustep of the idle thread starts the call (no event)                    CORR[call]
     S     -> ustep of the running thread; the event is compared field by field:      CORR[step]
              kind (load/cas/swap), location (tree i | slot class idx | ent h | row h r), bit offset,
              width, value found (packed word), value written (successful cas / swap), ok
     RET   -> the machine thread's state (UIdle (Some r) / UPanic site)               CORR[ret]
     END   -> all three buffers (huge entries + bitfields, tree entries, local slots)
              and the ghost held list                                                 CORR[mem] CORR[held]
     POST  -> the quiescent probe calls (drain, gets) run solo on thread 0            CORR[post]
   Oracles on the implementation's own results, independent of the machine (tags name the property):
     [C01] blocks handed out and not yet freed are aligned, in range, pairwise disjoint (after every RET)
     [C03] no panic; every free of a held block returns ok
     [C04] at the END of every run without panic (quiescent): lower_invb of the lower dump; upper_invb of
           the whole dump (off = residual of the trees that are offline, 0 elsewhere): counter + slot
           counters = lower free per tree, reserved iff exactly one slot; stats = exact counts of the
           held-block set; tree_stats.free_frames = stats.free_frames - frames hidden by offline trees;
           validate() passes when no tree is offline
     [C10] after the run and a drain: a base get fails only if no frame outside offline trees is free; a
           targeted get succeeds iff the whole block is free and outside offline trees (not for the custom
           policy, which declares class pairs unusable)
     [C13] the class a get reports is the requested one or one the policy rates Match / Steal
     [C15] a get that started after a tree went offline (and before it is brought online) never returns
           a frame of that tree
     [C05] SNAP lines (`--snapshots`: the lower buffer recovered after the prologue and after every write to it):
           lower_invb of the recovered state; every block held by the client (from the implementation's results) and
           every block in the hands of an in-flight get (`in_hand` of the machine state, UpperCrash.v) is still allocated
           and freeable (spec_put_enabled on abs); every frame allocated after recovery is covered by such a block or
           touched by an in-flight lower call (`touched_b` on `m1_of`; a frame that only the stale-split window of a
           partial free explains is reported as NOTE stale-split-leak); recovered stats = accounting of abs, fast count =
           exact count, validate() of the recovered instance passes.  CORR[snap]: lower_recover of the machine's lower
           memory = the recovered buffer
     [C18] every access of the compiled code (S line) names a word with in-range indices (tree < ntab, slot < the slot
           count of its class, entry < ntab * TREE_HUGE, bitfield < nbf, row < ROWS) and an aligned lane inside its row
     [C21] SOLO lines (freeze mode): within the harness budget, not ending in a wait-panic
   usage: ustep.exe ustep <transcript|-> [keys-file] *)
open Model
open Conv
open Dcommon

(* ---------- reporting: per (kind, tag) limits, own counters ---------- *)
let per_tag_limit = try int_of_string (Sys.getenv "STEP_LIMIT") with _ -> 12
let tag_counts : (string, int) Hashtbl.t = Hashtbl.create 17
let kind_counts : (string, int) Hashtbl.t = Hashtbl.create 7
let bump h k = Hashtbl.replace h k (1 + try Hashtbl.find h k with Not_found -> 0)
let get h k = try Hashtbl.find h k with Not_found -> 0

(* the print limit is per (kind, tag, scenario): the known findings of one scenario cannot crowd out another scenario *)
let print_counts : (string, int) Hashtbl.t = Hashtbl.create 97
let emit ?(scope = "") kind tag text =
  bump kind_counts kind;
  let key = kind ^ tag in
  bump tag_counts key;
  let pkey = key ^ "|" ^ scope in
  bump print_counts pkey;
  if get print_counts pkey <= per_tag_limit then
    if kind = "NOTE" then Printf.printf "NOTE %s %s\n" tag text else Printf.printf "MISMATCH %s %s %s\n" kind tag text

(* ---------- small helpers ---------- *)
let contains s sub =
  let n = String.length s and m = String.length sub in
  let rec go i = i + m <= n && (String.sub s i m = sub || go (i + 1)) in
  m = 0 || go 0

let starts s p = String.length s >= String.length p && String.sub s 0 (String.length p) = p

let kv tokens key =
  let p = key ^ "=" in
  let pl = String.length p in
  List.fold_left
    (fun acc t -> if String.length t >= pl && String.sub t 0 pl = p then Some (String.sub t pl (String.length t - pl)) else acc)
    None tokens

let kv_exn tokens key = match kv tokens key with Some v -> v | None -> failwith ("missing " ^ key)
let rec log2 n = if n <= 1 then 0 else 1 + log2 (n / 2)
let rec nth_opt l i = match l with [] -> None | a :: r -> if i = 0 then Some a else nth_opt r (i - 1)
let opt_int s = if s = "-" then None else Some (int_of_string s)
let show_opt = function None -> "-" | Some i -> string_of_int i

let parse_hexlist s = if s = "-" || s = "" then [] else List.map n_of_hex (String.split_on_char ',' s)
let parse_rows s = List.map (fun b -> List.map n_of_hex (String.split_on_char ',' b)) (String.split_on_char ';' s)
let show_list l = if l = [] then "-" else String.concat "," (List.map hex_of_n l)
let show_rows l = String.concat ";" (List.map (fun b -> String.concat "," (List.map hex_of_n b)) l)

let show_site = function
  | SUndoFailedAll -> "SUndoFailedAll" | SFailedUndoToggle -> "SFailedUndoToggle" | SFailedUndoSearch -> "SFailedUndoSearch"
  | SIndex k -> "SIndex" ^ dec_of_n k | SUndoFailed -> "SUndoFailed" | SUndoUnwrap -> "SUndoUnwrap"
  | SIncFailed -> "SIncFailed" | SFailedPartialClear -> "SFailedPartialClear" | SExceedingRetries -> "SExceedingRetries"
  | SUnreserveFailed -> "SUnreserveFailed" | STreeFree -> "STreeFree" | SUnreserveClass -> "SUnreserveClass"
  | SLocalFree -> "SLocalFree" | SInvalidClass -> "SInvalidClass" | SArith k -> "SArith" ^ dec_of_n k | _ -> "S?"

(* text that the panic message of the implementation must contain *)
let site_text = function
  | SUndoFailedAll -> "undo failed" | SFailedUndoToggle -> "Failed undo toggle" | SFailedUndoSearch -> "Failed undo search"
  | SIndex _ -> "index out of bounds" | SUndoFailed -> "Undo failed" | SUndoUnwrap -> "unwrap" | SIncFailed -> "Inc failed"
  | SFailedPartialClear -> "Failed partial clear" | SExceedingRetries -> "Exceeding retries"
  | SUnreserveFailed -> "Unreserve failed" | STreeFree -> "trees.rs:" | SUnreserveClass -> "unreserve invalid class"
  | SLocalFree -> "assertion failed: self.free() + free <= TREE_FRAMES" | SArith _ -> "overflow" | _ -> "\000"

(* ---------- calls ---------- *)
type icall =
  | IGet of int option * int * int * int option          (* frame, order, class, local *)
  | IPut of int * int * int * int option
  | IDrain
  | IChange of int option * int option * int * int option * string   (* id, match class, match free, new class, op *)

let show_icall = function
  | IGet (f, o, c, l) -> Printf.sprintf "uget %s %d %d %s" (show_opt f) o c (show_opt l)
  | IPut (f, o, c, l) -> Printf.sprintf "uput %d %d %d %s" f o c (show_opt l)
  | IDrain -> "udrain"
  | IChange (i, mc, mf, cc, op) -> Printf.sprintf "uchange %s %s %d %s %s" (show_opt i) (show_opt mc) mf (show_opt cc) op

(* a call and the rest of the tokens (its result, for PRE / POST lines) *)
let parse_icall = function
  | "uget" :: f :: o :: c :: l :: rest -> (IGet (opt_int f, int_of_string o, int_of_string c, opt_int l), rest)
  | "uput" :: f :: o :: c :: l :: rest -> (IPut (int_of_string f, int_of_string o, int_of_string c, opt_int l), rest)
  | "udrain" :: rest -> (IDrain, rest)
  | "uchange" :: i :: mc :: mf :: cc :: op :: rest -> (IChange (opt_int i, opt_int mc, int_of_string mf, opt_int cc, op), rest)
  | l -> failwith ("bad call " ^ String.concat " " l)

let on = function None -> None | Some i -> Some (n_of_int i)
let mreq o c l = { r_order = nat_of_int o; r_class = n_of_int c; r_local = on l }

let mcall = function
  | IGet (f, o, c, l) -> UGet (on f, mreq o c l)
  | IPut (f, o, c, l) -> UPut (n_of_int f, mreq o c l)
  | IDrain -> UDrain
  | IChange (i, mc, mf, cc, op) ->
      UChange
        ( { m_id = on i; m_class = on mc; m_free = n_of_int mf },
          { c_class = on cc; c_op = (match op with "online" -> Some OpOnline | "offline" -> Some OpOffline | _ -> None) } )

let is_get = function IGet _ -> true | _ -> false

let show_res isget = function
  | Ok (f, c) -> if isget then Printf.sprintf "ok %s %s" (dec_of_n f) (dec_of_n c) else "ok"
  | Err EMemory -> "err mem"
  | Err EArgument -> "err arg"
  | Err EInit -> "err init"
  | Panic s -> "panic-result " ^ show_site s

let show_thr isget = function
  | UIdle None -> "idle(none)"
  | UIdle (Some r) -> show_res isget r
  | URun (_, _, _) -> "running"
  | UPanic (s, _) -> "panic " ^ show_site s

(* ---------- per-run state ---------- *)
type run = {
  mutable id : string;
  mutable scenario : string;
  mutable mode : string;
  mutable cfg : string;
  mutable g : geom;
  mutable pol : n -> n -> n -> pol;
  mutable polname : string;
  mutable classes : (int * int) list;    (* classing in buffer order *)
  mutable dflt : int;
  mutable hf : int;
  mutable tf : int;
  mutable thuge : int;
  mutable nframes : int;
  mutable nthreads : int;
  mutable ms : m2state option;           (* None: no machine (before CFG, or after the first divergence) *)
  mutable diverged : bool;
  mutable cur : icall option array;
  mutable started : int array;           (* event counter at the start of the thread's call *)
  mutable sawmark : bool array;          (* the in-flight small-order put read the huge marker at its first access *)
  mutable firststep : bool array;
  mutable limbo : (icall * bool) list;   (* calls that panicked: their blocks stay touched *)
  mutable iheld : (int * int) list;      (* blocks held by the client, from the implementation's results *)
  mutable offline : (int * int) list;    (* C04/C10 view: trees whose offline returned ok and no online has returned ok since *)
  mutable murky : int list;              (* trees that received a free while offline: the freed frames are allocatable again *)
  mutable off15 : (int * int) list;      (* C15 view: (tree, event counter when its offline call returned); cleared when an online STARTS *)
  mutable clock : int;                   (* counts CALL / S / RET lines *)
  mutable run_panics : int;
  mutable post_drained : bool;
  mutable post_stats : (int * int * int) option;
  mutable last_stats : (int * int * int) option;
  mutable pending_tstats : int option;   (* tree_stats line since the last quiescent check *)
  mutable pending_validate : string option;
  mutable post_tstats : int option;
  mutable post_validate : string option;
  mutable end_dump : (n list * n list list * n list * n list) option;
  mutable msgs : (string * string * string) list;
  mutable sched : string;
  mutable tids : Buffer.t;
  mutable nontrivial : bool;
  mutable prev : int;
  mutable nsteps : int;
  mutable active : bool;
}

let r =
  { id = ""; scenario = ""; mode = ""; cfg = ""; g = { hord = nat_of_int 9; tlog = nat_of_int 2 };
    pol = (fun _ _ _ -> PInvalid); polname = ""; classes = []; dflt = 0; hf = 512; tf = 2048; thuge = 4; nframes = 0; nthreads = 0;
    ms = None; diverged = false; cur = [||]; started = [||]; sawmark = [||]; firststep = [||]; limbo = []; iheld = []; offline = []; murky = []; off15 = []; clock = 0; run_panics = 0;
    post_drained = false; post_stats = None; last_stats = None; pending_tstats = None; pending_validate = None; post_tstats = None; post_validate = None; end_dump = None; msgs = [];
    sched = "?"; tids = Buffer.create 64; nontrivial = false; prev = -1; nsteps = 0; active = false }

(* summary counters *)
let evals = ref 0
let runs = ref 0
let solos = ref 0
let solomax = ref 0
let panics = ref 0
let known_panics = ref 0
let maxsteps = ref 0
let pre_calls = ref 0
let post_calls = ref 0
let failed_cas = ref 0
let quiescent = ref 0
let scn_hist : (string, int) Hashtbl.t = Hashtbl.create 97
let mode_hist : (string, int) Hashtbl.t = Hashtbl.create 7
let loc_hist : (string, int) Hashtbl.t = Hashtbl.create 7
let distinct : (string, unit) Hashtbl.t = Hashtbl.create 100000
let corr_runs = ref 0

let note kind tag text = r.msgs <- (kind, tag, text) :: r.msgs
let oracle tag text = note "ORACLE" tag text

let corr tag text =
  if not r.diverged then begin
    r.diverged <- true;
    incr corr_runs;
    note "CORR" tag text
  end;
  r.ms <- None

let flush_run () =
  if r.active then begin
    let is_h (_, _, text) = starts text "harness:" in
    let own = List.filter (fun m -> not (is_h m)) r.msgs in
    r.msgs <- List.filter (fun ((k, tag, _) as m) -> not (is_h m) || not (List.exists (fun (k', tag', _) -> k' = k && tag' = tag) own)) r.msgs;
    List.iter
      (fun (kind, tag, text) ->
        emit ~scope:r.scenario kind tag (Printf.sprintf "scenario=%s cfg=%s run=%s mode=%s %s sched=%s" r.scenario r.cfg r.id r.mode text r.sched))
      (List.rev r.msgs);
    if r.nontrivial then Hashtbl.replace distinct (Digest.to_hex (Digest.string (r.scenario ^ "|" ^ r.cfg ^ "|" ^ Buffer.contents r.tids))) ();
    if r.nsteps > !maxsteps then maxsteps := r.nsteps;
    r.active <- false;
    r.msgs <- []
  end

(* ---------- the client's blocks, derived from the implementation's results only ---------- *)
let overlap (f, o) (f', o') = f < f' + (1 lsl o') && f' < f + (1 lsl o)

let check_new_block (f, o) ctx =
  if f land ((1 lsl o) - 1) <> 0 then oracle "[C01]" (Printf.sprintf "misaligned block: %s -> frame %d order %d" ctx f o);
  if f + (1 lsl o) > r.nframes then oracle "[C01]" (Printf.sprintf "block out of range: %s -> frame %d order %d (frames %d)" ctx f o r.nframes);
  List.iter
    (fun b ->
      if overlap b (f, o) then
        oracle "[C01]" (Printf.sprintf "overlap: %s -> frame %d order %d overlaps held block frame %d order %d" ctx f o (fst b) (snd b)))
    r.iheld;
  r.iheld <- (f, o) :: r.iheld

let take_block (f, o) =
  let inside (bf, bo) = bo >= o && bf <= f && f + (1 lsl o) <= bf + (1 lsl bo) in
  match List.filter inside r.iheld with
  | ((_, bo) as b) :: _ ->
      let rest = List.filter (fun x -> x <> b) r.iheld in
      let rec sib k acc = if k >= bo then acc else sib (k + 1) ((((f lsr k) lxor 1) lsl k, k) :: acc) in
      r.iheld <- sib o rest;
      true
  | [] ->
      let within (bf, bo) = bf >= f && bf + (1 lsl bo) <= f + (1 lsl o) in
      let ins = List.filter within r.iheld in
      if List.fold_left (fun a (_, bo) -> a + (1 lsl bo)) 0 ins = 1 lsl o then begin
        r.iheld <- List.filter (fun b -> not (within b)) r.iheld;
        true
      end
      else false

let held_frames () =
  let a = Array.make r.nframes false in
  List.iter (fun (f, o) -> for i = f to min (r.nframes - 1) (f + (1 lsl o) - 1) do a.(i) <- true done) r.iheld;
  a

let is_offline t = List.mem_assoc t r.offline

(* ---------- boot ---------- *)
let pol_index = function "simple" -> 0 | "movable" -> 1 | "zeroed" -> 2 | "zeroslot" -> 3 | "custom" -> 4 | s -> failwith ("policy " ^ s)

let boot_run tokens =
  let ho = int_of_string (kv_exn tokens "huge_order") in
  let th = int_of_string (kv_exn tokens "tree_huge") in
  let fr = int_of_string (kv_exn tokens "frames") in
  let init = kv_exn tokens "init" in
  let nt = int_of_string (kv_exn tokens "threads") in
  if kv tokens "api" <> Some "upper" then failwith "ustep: not an `--api upper` transcript (use step.exe)";
  let g = { hord = nat_of_int ho; tlog = nat_of_int (log2 th) } in
  r.g <- g;
  r.hf <- 1 lsl ho;
  r.thuge <- th;
  r.tf <- th lsl ho;
  r.nframes <- fr;
  r.nthreads <- nt;
  r.polname <- kv_exn tokens "policy";
  r.pol <- pol_select (n_of_int (pol_index r.polname)) (n_of_int r.tf);
  r.dflt <- int_of_string (kv_exn tokens "default");
  r.classes <-
    List.map
      (fun e -> match String.split_on_char ':' e with [ c; n ] -> (int_of_string c, int_of_string n) | _ -> failwith "classes")
      (String.split_on_char ',' (kv_exn tokens "classes"));
  r.cfg <- Printf.sprintf "th%d/%d/%s/%s/d%d/%s" th fr init r.polname r.dflt (kv_exn tokens "classes");
  r.cur <- Array.make nt None;
  r.started <- Array.make nt 0;
  r.sawmark <- Array.make nt false;
  r.firststep <- Array.make nt false;
  r.limbo <- [];
  let frn = n_of_int fr in
  let nslots = List.fold_left (fun a (_, n) -> a + n) 0 r.classes in
  let classing = List.map (fun (c, n) -> (n_of_int c, n_of_int n)) r.classes in
  let empty = { frames = frn; bfs = []; ents = [] } in
  let sbuf = List.init nslots (fun _ -> slot_none) in
  (match llfree_new g frn (if init = "alloc" then IAllocAll else IFreeAll) classing (n_of_int r.dflt) empty [] sbuf with
  | Ok u ->
      let held = if init = "alloc" then alloc_all_held g frn else [] in
      r.ms <- Some (uboot u held (nat_of_int nt))
  | _ ->
      r.ms <- None;
      note "CORR" "[boot]" "llfree_new of the model fails");
  r.iheld <-
    (if init = "alloc" then
       List.init (fr / r.hf) (fun h -> (h * r.hf, ho)) @ List.init (fr mod r.hf) (fun i -> ((fr / r.hf * r.hf) + i, 0))
     else [])

let thread ms t = nth_opt ms.m2_pool t

(* run thread 0 alone until its call is over *)
let solo_call (ms : m2state) (call : icall) : m2state option =
  let c = mcall call in
  let ms1, _ = ustep r.g r.pol ms O c in
  let rec go ms fuel =
    match thread ms 0 with
    | Some (URun _) when fuel > 0 -> go (fst (ustep r.g r.pol ms O c)) (fuel - 1)
    | _ -> ms
  in
  (* the start must have left the idle state or completed the call at once *)
  match (thread ms 0, thread ms1 0) with
  | Some a, Some b when a == b -> None
  | _ -> Some (go ms1 1000000)

(* oracles on a completed call (PRE / RET / POST) *)
let account ctx call impl started =
  let is_panic = starts impl "panic" in
  if is_panic then begin
    incr panics;
    r.run_panics <- r.run_panics + 1;
    if contains impl "Exceeding retries" then incr known_panics;
    oracle "[C03]"
      (Printf.sprintf "%s %s: %s%s" ctx (show_icall call) impl
         (match call with IPut _ when ctx = "post-run" -> " (free of a held block panicked in the post phase)" | _ -> ""))
  end;
  match call with
  | IGet (_, o, c, _) ->
      if starts impl "ok " then begin
        match String.split_on_char ' ' impl with
        | [ _; f; c' ] ->
            let f = int_of_string f and c' = int_of_string c' in
            check_new_block (f, o) (Printf.sprintf "%s %s" ctx (show_icall call));
            (* C13 *)
            if c' <> c then begin
              match r.pol (n_of_int c) (n_of_int c') (n_of_int (1 lsl o)) with
              | PMatch _ | PSteal -> ()
              | _ -> oracle "[C13]" (Printf.sprintf "%s %s reports class %d, which the policy %s does not rate Match/Steal for class %d" ctx (show_icall call) c' r.polname c)
            end;
            (* C15 *)
            let t = f / r.tf in
            (match List.assoc_opt t r.off15 with
            | Some since when since < started ->
                oracle "[C15]" (Printf.sprintf "%s %s returns frame %d of tree %d, which is offline" ctx (show_icall call) f t)
            | _ -> ())
        | _ -> failwith ("bad get result " ^ impl)
      end
  | IPut (f, o, _, _) ->
      if (not is_panic) && impl <> "ok" then
        oracle "[C03]" (Printf.sprintf "%s: free of a held block %s [%s]: %s" ctx (if ctx = "post-run" then "failed in the post phase:" else "returned") impl (show_icall call));
      ignore (f, o)
  | IChange (Some i, _, _, _, "offline") ->
      if impl = "ok" then begin
        r.offline <- (i, r.clock) :: List.remove_assoc i r.offline;
        (* a free into the tree that is in flight may land after the offline: its frames stay allocatable *)
        let racing_put = Array.exists (function Some (IPut (f, _, _, _)) -> f / r.tf = i | _ -> false) r.cur in
        if racing_put then begin
          if not (List.mem i r.murky) then r.murky <- i :: r.murky
        end
        else r.off15 <- (i, r.clock) :: List.remove_assoc i r.off15
      end
  | IChange (Some i, _, _, _, "online") -> if impl = "ok" then r.offline <- List.remove_assoc i r.offline
  | _ -> ()

let start_call ctx call =
  match call with
  | IPut (f, o, _, _) ->
      (* a free into a tree that is offline makes the freed frames allocatable again (not covered by C15 / C10's "offline") *)
      (let t = f / r.tf in
       if List.mem_assoc t r.offline || List.mem_assoc t r.off15 then begin
         r.off15 <- List.remove_assoc t r.off15;
         if not (List.mem t r.murky) then r.murky <- t :: r.murky
       end);
      if not (take_block (f, o)) then note "CORR" "[scenario]" (Printf.sprintf "%s frees a block that is not held: %s" ctx (show_icall call))
  | IChange (Some i, _, _, _, "online") -> r.off15 <- List.remove_assoc i r.off15
  | IChange (None, _, _, _, op) when op <> "-" -> note "CORR" "[scenario]" "online/offline by search is not tracked by the oracles"
  | _ -> ()

let run_solo_line tag ctx call impl =
  start_call ctx call;
  (match r.ms with
  | None -> ()
  | Some ms -> (
      match solo_call ms call with
      | None -> corr tag (Printf.sprintf "%s %s: the machine does not start the call (impl=[%s])" ctx (show_icall call) impl)
      | Some ms2 -> (
          r.ms <- Some ms2;
          match thread ms2 0 with
          | Some (UPanic (s, _)) ->
              if not (starts impl "panic" && contains impl (site_text s)) then
                corr tag (Printf.sprintf "%s %s impl=[%s] machine=[panic %s]" ctx (show_icall call) impl (show_site s))
          | Some th ->
              let m = show_thr (is_get call) th in
              if m <> impl then corr tag (Printf.sprintf "%s %s impl=[%s] machine=[%s]" ctx (show_icall call) impl m)
          | None -> corr tag "no machine thread 0")));
  r.clock <- r.clock + 1;
  account ctx call impl (r.clock - 1)

let sched_step tid =
  if r.prev >= 0 && r.prev <> tid && r.prev < Array.length r.cur && r.cur.(r.prev) <> None then r.nontrivial <- true;
  r.prev <- tid;
  Buffer.add_string r.tids (string_of_int tid);
  Buffer.add_char r.tids ','

let do_call tid call =
  sched_step tid;
  if tid >= r.nthreads then failwith "CALL: thread id out of range";
  r.cur.(tid) <- Some call;
  r.clock <- r.clock + 1;
  r.started.(tid) <- r.clock;
  r.sawmark.(tid) <- false;
  r.firststep.(tid) <- true;
  start_call (Printf.sprintf "thread %d" tid) call;
  match r.ms with
  | None -> ()
  | Some ms -> (
      let ms1, ev = ustep r.g r.pol ms (nat_of_int tid) (mcall call) in
      match (ev, thread ms tid, thread ms1 tid) with
      | None, Some a, Some b when a != b -> r.ms <- Some ms1
      | _, _, th ->
          corr "[call]"
            (Printf.sprintf "thread %d %s: the machine does not start the call (thread state: %s)" tid (show_icall call)
               (match th with Some x -> show_thr false x | None -> "no such thread")))

let show_loc = function
  | LTree i -> ("tree", dec_of_n i, "0")
  | LSlot (c, i) -> ("slot", dec_of_n c, dec_of_n i)
  | LEnt h -> ("ent", dec_of_n h, "0")
  | LRow (h, rw) -> ("row", dec_of_n h, dec_of_n rw)

let show_kind = function UKLoad -> "load" | UKCas -> "cas" | UKSwap -> "swap"

let show_event e =
  let w, a, b = show_loc e.ue_loc in
  Printf.sprintf "%s %s %s %s %s %s %s %s %d" (show_kind e.ue_kind) w a b (dec_of_n e.ue_off) (dec_of_n e.ue_width) (hex_of_n e.ue_val)
    (match e.ue_kind with UKLoad -> "-" | _ -> hex_of_n e.ue_new)
    (if e.ue_ok then 1 else 0)

let do_step tid line fields =
  incr evals;
  r.nsteps <- r.nsteps + 1;
  r.clock <- r.clock + 1;
  sched_step tid;
  match fields with
  | [ kind; what; a; b; off; width; found; nw; ok ] -> (
      bump loc_hist what;
      (* C18: the word the compiled code accessed has in-range indices and an aligned lane *)
      (let fr = n_of_int r.nframes in
       let okb =
         match what with
         | "row" -> row_idx_okb r.g fr (n_of_dec a) (n_of_dec b) (n_of_dec off) (n_of_dec width)
         | "ent" -> ent_idx_okb r.g fr (n_of_dec a) (n_of_dec off) (n_of_dec width) && b = "0"
         | "tree" -> tree_idx_okb r.g fr (n_of_dec a) (n_of_dec off) (n_of_dec width) && b = "0"
         | "slot" ->
             let len = match List.assoc_opt (int_of_string a) (List.rev r.classes) with Some n -> Some (n_of_int n) | None -> None in
             slot_idx_okb len (n_of_dec b) (n_of_dec off) (n_of_dec width)
         | _ -> false
       in
       if not okb then oracle "[C18]" (Printf.sprintf "step %d: access outside the index / lane bounds of its buffer: %s" r.nsteps line));
      if tid < Array.length r.firststep && r.firststep.(tid) then begin
        r.firststep.(tid) <- false;
        (match r.cur.(tid) with
        | Some (IPut (_, o, _, _)) when o < int_of_nat r.g.hord && kind = "load" && what = "ent" && found = "ffff" -> r.sawmark.(tid) <- true
        | _ -> ())
      end;
      if kind = "cas" && ok = "0" then begin
        r.nontrivial <- true;
        incr failed_cas
      end;
      match r.ms with
      | None -> ()
      | Some ms -> (
          let c = match r.cur.(tid) with Some c -> mcall c | None -> UDrain in
          let ms1, ev = ustep r.g r.pol ms (nat_of_int tid) c in
          match ev with
          | None ->
              corr "[step]"
                (Printf.sprintf "step %d: impl=[%s] but the machine thread makes no access (state: %s)" r.nsteps line
                   (match thread ms1 tid with Some x -> show_thr false x | None -> "?"))
          | Some e ->
              let diffs = ref [] in
              let d name x y = if x <> y then diffs := Printf.sprintf "%s impl=%s machine=%s" name x y :: !diffs in
              let w, ma, mb = show_loc e.ue_loc in
              d "kind" kind (show_kind e.ue_kind);
              d "target" what w;
              d "index" a ma;
              d "index2" b mb;
              d "offset" off (dec_of_n e.ue_off);
              d "width" width (dec_of_n e.ue_width);
              d "found" found (hex_of_n e.ue_val);
              d "ok" ok (if e.ue_ok then "1" else "0");
              if e.ue_kind <> UKLoad && nw <> "-" then d "new" nw (hex_of_n e.ue_new);
              if !diffs <> [] then
                corr "[step]"
                  (Printf.sprintf "step %d thread %d %s: impl=[%s] machine=[S %d %s] differ in: %s" r.nsteps tid
                     (match r.cur.(tid) with Some c -> show_icall c | None -> "?")
                     line tid (show_event e)
                     (String.concat "; " (List.rev !diffs)))
              else r.ms <- Some ms1))
  | _ -> failwith ("bad S line: " ^ line)

let do_ret tid impl =
  if tid >= r.nthreads then failwith "RET: thread id out of range";
  let call = match r.cur.(tid) with Some c -> c | None -> failwith "RET without CALL" in
  r.cur.(tid) <- None;
  r.clock <- r.clock + 1;
  if starts impl "panic" then r.limbo <- (call, r.sawmark.(tid)) :: r.limbo;
  (match r.ms with
  | None -> ()
  | Some ms -> (
      match thread ms tid with
      | Some (UPanic (s, _)) ->
          if not (starts impl "panic" && contains impl (site_text s)) then
            corr "[ret]" (Printf.sprintf "thread %d %s returns impl=[%s] machine=[panic %s]" tid (show_icall call) impl (show_site s))
      | Some th ->
          let m = show_thr (is_get call) th in
          if m <> impl then corr "[ret]" (Printf.sprintf "thread %d %s returns impl=[%s] machine=[%s]" tid (show_icall call) impl m)
      | None -> corr "[ret]" "no such machine thread"));
  account (Printf.sprintf "thread %d" tid) call impl r.started.(tid)

(* ---------- dumps ---------- *)
let parse_dump tokens =
  (parse_hexlist (kv_exn tokens "ents"), parse_rows (kv_exn tokens "rows"), parse_hexlist (kv_exn tokens "trees"), parse_hexlist (kv_exn tokens "slots"))

let machine_dump (ms : m2state) =
  let u = ms.m2_up in
  let slots =
    List.concat_map
      (fun (c, n) -> match class_slots u (n_of_int c) with Some l -> List.map enc_slot l | None -> List.init n (fun _ -> N0))
      r.classes
  in
  (u.low.ents, u.low.bfs, List.map enc_tree u.trees, slots)

let show_dump (e, rw, t, s) = Printf.sprintf "ents=%s rows=%s trees=%s slots=%s" (show_list e) (show_rows rw) (show_list t) (show_list s)

let compare_mem tag tokens =
  match r.ms with
  | Some ms ->
      let i = show_dump (parse_dump tokens) and m = show_dump (machine_dump ms) in
      if i <> m then corr tag (Printf.sprintf "memory impl=[%s] machine=[%s]" i m)
      else begin
        let norm l = List.sort compare l in
        let mh = norm (List.map (fun (f, o) -> (int_of_n f, int_of_nat o)) ms.m2_held) in
        if mh <> norm r.iheld then
          corr "[held]"
            (Printf.sprintf "held blocks impl=[%s] machine=[%s]"
               (String.concat " " (List.map (fun (f, o) -> Printf.sprintf "%d/%d" f o) (norm r.iheld)))
               (String.concat " " (List.map (fun (f, o) -> Printf.sprintf "%d/%d" f o) mh)));
        if not (uheld_ok ms) then corr "[held]" "uheld_ok fails on the machine state"
      end
  | None -> ()

(* the dump as a record of the sequential model *)
let upper_of_dump (ents, rows, trees, slots) : upper =
  let rec split cl sl =
    match cl with
    | [] -> []
    | (c, n) :: rest ->
        let rec take k l = if k = 0 then ([], l) else match l with [] -> ([], []) | a :: q -> let x, y = take (k - 1) q in (a :: x, y) in
        let mine, others = take n sl in
        (c, List.map dec_slot mine) :: split rest others
  in
  let per = split r.classes slots in
  let locals = List.init 8 (fun c -> match List.assoc_opt c (List.rev per) with Some l -> Some l | None -> None) in
  { low = { frames = n_of_int r.nframes; bfs = rows; ents }; trees = List.map dec_tree trees; locals; dflt = n_of_int r.dflt }

let int_of_ent e = let v = int_of_n e in if v = 0xffff then 0 else v

(* C04 at a quiescent point *)
let check_quiescent () =
  match r.end_dump with
  | None -> ()
  | Some ((ents, _, trees, slots) as d) ->
      incr quiescent;
      let u = upper_of_dump d in
      if not (lower_invb r.g u.low) then oracle "[C04]" (Printf.sprintf "lower_invb fails on the final state %s" (show_dump d));
      let ntrees = List.length trees in
      let earr = Array.of_list (List.map int_of_ent ents) in
      let lower_free t =
        let s = ref 0 in
        for j = 0 to r.thuge - 1 do
          let h = (t * r.thuge) + j in
          if h < Array.length earr then s := !s + earr.(h)
        done;
        !s
      in
      let slot_sum t =
        List.fold_left
          (fun a w -> let s = dec_slot w in if s.s_pres && int_of_n s.s_row * 64 / r.tf = t then a + int_of_n s.s_free else a)
          0 slots
      in
      let offs =
        List.mapi
          (fun t w -> if is_offline t then max 0 (lower_free t - int_of_n (dec_tree w).t_free - slot_sum t) else 0)
          trees
      in
      if not (upper_invb r.g r.pol { us = u; off = List.map n_of_int offs }) then
        oracle "[C04]"
          (Printf.sprintf "upper_invb fails on the final state (counter + slot counters = lower free per tree, reserved iff exactly one slot, ...): %s offline=[%s]"
             (show_dump d)
             (String.concat "," (List.map (fun (t, _) -> string_of_int t) r.offline)));
      let hidden = List.fold_left ( + ) 0 offs in
      let held = held_frames () in
      let exact_free = Array.fold_left (fun a b -> if b then a else a + 1) 0 held in
      let block_free f n = let ok = ref (f + n <= r.nframes) in for i = f to min (r.nframes - 1) (f + n - 1) do if held.(i) then ok := false done; !ok in
      let count n = let c = ref 0 in for i = 0 to (r.nframes / n) - 1 do if block_free (i * n) n then incr c done; !c in
      (match r.post_stats with
      | Some (ff, fh, ft) ->
          if ff <> exact_free then oracle "[C04]" (Printf.sprintf "stats.free_frames=%d but %d frames are not held by anyone" ff exact_free);
          if fh <> count r.hf then oracle "[C04]" (Printf.sprintf "stats.free_huge=%d but %d huge frames are entirely free" fh (count r.hf));
          if ft <> count r.tf then oracle "[C04]" (Printf.sprintf "stats.free_trees=%d but %d trees are entirely free" ft (count r.tf));
          (match r.post_tstats with
          | Some tff ->
              if tff <> ff - hidden then
                oracle "[C04]" (Printf.sprintf "tree_stats.free_frames=%d but stats.free_frames=%d minus %d frames hidden by offline trees" tff ff hidden)
          | None -> ())
      | None -> ());
      (match r.post_validate with
      | Some v when v <> "ok" && r.offline = [] -> oracle "[C04]" (Printf.sprintf "validate() fails at the end of the run: %s" v)
      | _ -> ());
      ignore ntrees

let do_end tokens =
  compare_mem "[mem]" tokens;
  r.end_dump <- (if kv tokens "trees" <> None then Some (parse_dump tokens) else None)

(* C10: probes after the drain *)
let check_probe call impl =
  if r.post_drained && r.polname <> "custom" then
    match call with
    | IGet (None, 0, _, _) ->
        if impl = "err mem" then begin
          let held = held_frames () in
          let free = ref (-1) in
          Array.iteri (fun i h -> if (not h) && (not (is_offline (i / r.tf))) && !free < 0 then free := i) held;
          if !free >= 0 then
            oracle "[C10]" (Printf.sprintf "after a drain %s fails with out-of-memory although frame %d is free" (show_icall call) !free)
        end
    | IGet (Some f, _, _, _) when List.mem (f / r.tf) r.murky -> ()
    | IGet (Some f, o, _, _) ->
        let held = held_frames () in
        let ok = ref (not (is_offline (f / r.tf))) in
        for i = f to min (r.nframes - 1) (f + (1 lsl o) - 1) do if held.(i) then ok := false done;
        let got = starts impl "ok " in
        if got <> !ok && (got || impl = "err mem") then
          oracle "[C10]"
            (Printf.sprintf "after a drain the targeted %s returns [%s] although the block is %s" (show_icall call) impl
               (if !ok then "entirely free and outside offline trees" else "not entirely free (or in an offline tree)"))
    | _ -> ()

let do_post tokens =
  match tokens with
  | "skipped" :: _ -> r.end_dump <- None
  | "stats" :: rest ->
      let v = Some (int_of_string (kv_exn rest "free_frames"), int_of_string (kv_exn rest "free_huge"), int_of_string (kv_exn rest "free_trees")) in
      r.last_stats <- v;
      if r.post_stats = None then r.post_stats <- v
  | "tree_stats" :: rest ->
      let v = Some (int_of_string (kv_exn rest "free_frames")) in
      if not r.post_drained then r.post_tstats <- v else r.pending_tstats <- v
  | "validate" :: rest ->
      if not r.post_drained then begin
        r.post_validate <- Some (String.concat " " rest);
        (* everything C04 needs at END has been read *)
        if r.run_panics = 0 then check_quiescent ()
      end
      else r.pending_validate <- Some (String.concat " " rest)
  | _ ->
      let call, res = parse_icall tokens in
      let impl = String.concat " " res in
      incr post_calls;
      check_probe call impl;
      run_solo_line "[post]" "post-run" call impl;
      if call = IDrain then r.post_drained <- true

(* ---------- C05: a crash here (SNAP lines) ---------- *)
let snaps = ref 0
let snap_hits = ref 0
let snap_memo : (string, (string * string * string) list) Hashtbl.t = Hashtbl.create 4096

let bits_array (x : n) (len : int) : bool array =
  let a = Array.make len false in
  List.iteri (fun i b -> if i < len && b = 1 then a.(i) <- true) (bits_of_n x);
  a

let replace_all s sub by =
  let n = String.length sub in
  let b = Buffer.create (String.length s) in
  let i = ref 0 in
  while !i < String.length s do
    if !i + n <= String.length s && String.sub s !i n = sub then (Buffer.add_string b by; i := !i + n)
    else (Buffer.add_char b s.[!i]; incr i)
  done;
  Buffer.contents b

(* can the frames of `l` (sorted) be covered by one aligned block per in-flight get?  (any tree unless targeted) *)
let rec cover (l : int list) (gets : icall list) : bool =
  match l with
  | [] -> true
  | x :: _ ->
      let try_get gcall =
        let blk =
          match gcall with
          | IGet (None, o, _, _) -> Some (x land lnot ((1 lsl o) - 1), o)
          | IGet (Some f, o, _, _) -> if f <= x && x < f + (1 lsl o) then Some (f, o) else None
          | _ -> None
        in
        match blk with
        | None -> false
        | Some (bf, bo) ->
            let rest = List.filter (fun y -> y < bf || y >= bf + (1 lsl bo)) l in
            let rec remove_one = function [] -> [] | a :: q -> if a == gcall then q else a :: remove_one q in
            cover rest (remove_one gets)
      in
      List.exists try_get gets

let snap_checks rest inflight (ms : m2state option) : (string * string * string) list =
  let out = ref [] in
  let add kind tag text = out := (kind, tag, text) :: !out in
  let ents = parse_hexlist (kv_exn rest "ents") and rows = parse_rows (kv_exn rest "rows") in
  let l = { frames = n_of_int r.nframes; bfs = rows; ents } in
  let where = Printf.sprintf "snapshot at step @STEP@ (in flight: %s)" inflight in
  (match ms with
  | Some ms ->
      let m = lower_recover r.g ms.m2_up.low in
      if show_list m.ents <> show_list ents || show_rows m.bfs <> show_rows rows then
        add "CORR" "[snap]"
          (Printf.sprintf "%s: recovered impl=[ents=%s rows=%s] model=[ents=%s rows=%s]" where (show_list ents) (show_rows rows)
             (show_list m.ents) (show_rows m.bfs))
  | None -> ());
  if not (lower_invb r.g l) then
    add "ORACLE" "[C05]" (Printf.sprintf "%s: lower_invb fails on the recovered state ents=%s rows=%s" where (show_list ents) (show_rows rows));
  let a = abs r.g l in
  (* blocks that must have survived: held by the client + in the hands of in-flight gets (machine ghost) *)
  let hand = match ms with Some ms -> List.map (fun (f, o) -> (int_of_n f, int_of_nat o)) (in_hand r.g ms) | None -> [] in
  List.iter
    (fun (f, o) ->
      if not (spec_put_enabled r.g a (n_of_int f) (nat_of_int o)) then
        add "ORACLE" "[C05]" (Printf.sprintf "%s: held block frame %d order %d is not allocated/freeable after recovery" where f o))
    r.iheld;
  List.iter
    (fun (f, o) ->
      if not (spec_put_enabled r.g a (n_of_int f) (nat_of_int o)) then
        add "ORACLE" "[C05]" (Printf.sprintf "%s: block frame %d order %d, taken from the lower allocator by an in-flight get, is not allocated/freeable after recovery" where f o))
    hand;
  let alloc = bits_array a.o_alloc r.nframes in
  let owned = Array.make r.nframes false in
  let mark (f, o) = for i = f to min (r.nframes - 1) (f + (1 lsl o) - 1) do owned.(i) <- true done in
  List.iter mark r.iheld;
  (* the implementation-only view (as driver/step.ml): in-flight frees touch their block, in-flight gets may hold one block *)
  let gets = ref [] in
  let touch = function IPut (f, o, _, _) -> mark (f, o) | IGet _ as c -> gets := c :: !gets | _ -> () in
  Array.iter (function Some c -> touch c | None -> ()) r.cur;
  List.iter (fun (c, _) -> touch c) r.limbo;
  let leaked_of owned =
    let l = ref [] in
    for i = r.nframes - 1 downto 0 do
      if alloc.(i) && not owned.(i) then l := i :: !l
    done;
    !l
  in
  let strict = leaked_of owned in
  let owned2 = Array.copy owned in
  let see c saw = match c with IPut (f, _, _, _) when saw -> for i = f / r.hf * r.hf to min (r.nframes - 1) (((f / r.hf) + 1) * r.hf - 1) do owned2.(i) <- true done | _ -> () in
  Array.iteri (fun t c -> match c with Some c -> see c r.sawmark.(t) | None -> ()) r.cur;
  List.iter (fun (c, saw) -> see c saw) r.limbo;
  let relaxed = leaked_of owned2 in
  let strict_ok = cover strict !gets and relaxed_ok = cover relaxed !gets in
  (match ms with
  | Some ms ->
      (* the theorem's form: covered by held / in hand, or touched by an in-flight lower call of the machine's view *)
      let m1 = m1_of r.g ms in
      List.iter mark hand;
      let bad = List.filter (fun f -> (not owned.(f)) && not (touched_b r.g m1 (n_of_int f))) (leaked_of owned) in
      if bad <> [] then
        add "ORACLE" "[C05]"
          (Printf.sprintf "%s: %d frames are allocated after recovery but neither held, in the hands of an in-flight get, nor touched by an in-flight lower call (first: %d)"
             where (List.length bad) (List.hd bad))
      else if not relaxed_ok then
        add "ORACLE" "[C05]"
          (Printf.sprintf "%s: %d frames that were free and untouched are allocated after recovery (first: %d)" where (List.length relaxed) (List.hd relaxed))
  | None ->
      if not relaxed_ok then
        add "ORACLE" "[C05]"
          (Printf.sprintf "%s: %d frames that were free and untouched are allocated after recovery (first: %d)" where (List.length relaxed) (List.hd relaxed)));
  if relaxed_ok && not strict_ok then
    add "NOTE" "stale-split-leak"
      (Printf.sprintf "%s: %d free frames outside the in-flight partial free's own block are allocated after recovery (first: %d); all inside the huge frame it is splitting"
         where (List.length strict) (List.hd strict));
  (match kv rest "stats" with
  | Some st -> (
      match String.split_on_char ',' st with
      | [ ff; fh; _ft ] ->
          let ef = dec_of_n (exact_free a) and eh = dec_of_n (free_huge_count r.g a) in
          if ff <> ef then add "ORACLE" "[C05]" (Printf.sprintf "%s: recovered stats free_frames=%s but abs has %s free frames" where ff ef);
          if fh <> eh then add "ORACLE" "[C05]" (Printf.sprintf "%s: recovered stats free_huge=%s but abs has %s free huge frames" where fh eh);
          (match kv rest "tstats" with
          | Some ts when ts <> ff -> add "ORACLE" "[C05]" (Printf.sprintf "%s: after recovery the fast count tree_stats.free_frames=%s differs from stats.free_frames=%s" where ts ff)
          | _ -> ())
      | _ -> failwith "bad stats")
  | None -> ());
  (match kv rest "validate" with
  | Some v when v <> "ok" ->
      let rec after = function [] -> "" | t :: q -> if starts t "validate=" then String.concat " " (t :: q) else after q in
      add "ORACLE" "[C05]" (Printf.sprintf "%s: validate() of the recovered allocator fails: %s" where (after rest))
  | _ -> ());
  List.rev !out

let do_snap tokens =
  incr snaps;
  match tokens with
  | step :: "panic" :: rest -> oracle "[C05]" (Printf.sprintf "snapshot %s: recovery panics: %s" step (String.concat " " rest))
  | step :: rest ->
      let inflight =
        String.concat ", "
          (List.filter_map (fun x -> x)
             (Array.to_list
                (Array.mapi
                   (fun t c -> match c with Some c -> Some (Printf.sprintf "t%d %s%s" t (show_icall c) (if r.sawmark.(t) then " (saw marker)" else "")) | None -> None)
                   r.cur))
          @ List.map (fun (c, saw) -> "panicked " ^ show_icall c ^ if saw then " (saw marker)" else "") r.limbo)
      in
      let key =
        String.concat "|"
          [ r.cfg; String.concat " " rest; inflight;
            String.concat " " (List.map (fun (f, o) -> Printf.sprintf "%d/%d" f o) (List.sort compare r.iheld));
            (match r.ms with
            | Some ms -> Marshal.to_string (ms.m2_up.low, (m1_of r.g ms).ms_pool, in_hand r.g ms) []
            | None -> "-") ]
      in
      let res =
        match Hashtbl.find_opt snap_memo key with
        | Some x -> incr snap_hits; x
        | None ->
            let x = snap_checks rest inflight r.ms in
            Hashtbl.replace snap_memo key x;
            x
      in
      List.iter
        (fun (kind, tag, text) ->
          let text = replace_all text "@STEP@" step in
          if kind = "CORR" then corr tag text else note kind tag text)
        res
  | [] -> failwith "bad SNAP"

let do_solo tokens =
  incr solos;
  match tokens with
  | tid :: rest ->
      let steps = int_of_string (kv_exn rest "steps") in
      let budget = int_of_string (kv_exn rest "budget") in
      if steps > !solomax then solomax := steps;
      let res =
        let rec after = function [] -> "" | t :: q -> if starts t "result=" then String.concat " " (String.sub t 7 (String.length t - 7) :: q) else after q in
        after rest
      in
      let at = match kv rest "frozen_at" with Some s -> s | None -> "?" in
      if steps > budget then oracle "[C21]" (Printf.sprintf "thread %s frozen at step %s runs alone for %d steps (budget %d)" tid at steps budget);
      (* C21 is about termination and waiting: the bounded spin that gives up ("Exceeding retries") IS a wait for another
         thread; any other panic ends the call - it is a no-panic matter (C03), e.g. the Tree::put assertion after an
         Online race (finding D16) *)
      if contains res "panic" then
        oracle (if contains res "Exceeding retries" then "[C21]" else "[C03]")
          (Printf.sprintf "thread %s frozen at step %s, running alone, ends in %s" tid at res)
  | [] -> failwith "bad SOLO"

let tag_of_hfail text =
  if contains text "overlap" || contains text "misaligned" || contains text "out of range" then "[C01]"
  else if contains text "solo" || contains text "step limit" then "[C21]"
  else if contains text "scenario" then "[scenario]"
  else "[C03]"

let suite file keys =
  iter_lines file (fun line ->
      match split line with
      | "S" :: tid :: fields -> do_step (int_of_string tid) line fields
      | "CALL" :: tid :: c -> do_call (int_of_string tid) (fst (parse_icall c))
      | "RET" :: tid :: res -> do_ret (int_of_string tid) (String.concat " " res)
      | "RUN" :: id :: rest ->
          flush_run ();
          incr runs;
          r.active <- true;
          r.id <- id;
          r.scenario <- kv_exn rest "scenario";
          r.mode <- kv_exn rest "mode";
          r.ms <- None;
          r.diverged <- false;
          r.iheld <- [];
          r.offline <- [];
          r.off15 <- [];
          r.murky <- [];
          r.clock <- 0;
          r.run_panics <- 0;
          r.post_drained <- false;
          r.post_stats <- None;
          r.last_stats <- None;
          r.pending_tstats <- None;
          r.pending_validate <- None;
          r.post_tstats <- None;
          r.post_validate <- None;
          r.end_dump <- None;
          r.sched <- "?";
          Buffer.clear r.tids;
          r.nontrivial <- false;
          r.prev <- -1;
          r.nsteps <- 0;
          bump scn_hist r.scenario;
          bump mode_hist r.mode
      | "CFG" :: rest -> boot_run rest
      | "PRE" :: rest ->
          let call, res = parse_icall rest in
          incr pre_calls;
          run_solo_line "[pre]" "prologue" call (String.concat " " res)
      | "POST" :: rest -> do_post rest
      | "POSTEND" :: rest ->
          compare_mem "[postmem]" rest;
          (* quiescent again, after the drain and the probe allocations *)
          if r.run_panics = 0 then begin
            r.end_dump <- Some (parse_dump rest);
            r.post_stats <- r.last_stats;
            r.post_tstats <- r.pending_tstats;
            r.post_validate <- r.pending_validate;
            r.pending_tstats <- None;
            r.pending_validate <- None;
            check_quiescent ()
          end
      | "SOLO" :: rest -> do_solo rest
      | "SCHED" :: s -> r.sched <- String.concat "" s
      | "END" :: rest -> do_end rest
      | "HFAIL" :: rest ->
          let t = String.concat " " rest in
          let tag = tag_of_hfail t in
          if tag = "[scenario]" then note "CORR" tag ("harness: " ^ t) else oracle tag ("harness: " ^ t)
      | "END-ABORTED" :: _ -> ()   (* the harness gave up on a run whose solo call exceeded its budget (HFAIL line precedes) *)
      | "X" :: _ -> note "CORR" "[step]" ("access outside the three buffers: " ^ line)
      | "SNAP" :: rest -> do_snap rest
      | [] -> ()
      | "#" :: _ -> ()
      | _ -> failwith ("ustep: bad line " ^ line));
  flush_run ();
  (match keys with
  | Some f ->
      let oc = open_out f in
      Hashtbl.iter (fun k () -> output_string oc (k ^ "\n")) distinct;
      close_out oc
  | None -> ());
  let hist h prefix = String.concat " " (List.sort compare (Hashtbl.fold (fun k v acc -> Printf.sprintf "%s%s=%d" prefix k v :: acc) h [])) in
  Printf.printf
    "SUMMARY suite=ustep evaluations=%d distinct=%d runs=%d maxsteps=%d failed_cas=%d pre=%d post=%d quiescent=%d snaps=%d stale_split_leaks=%d solos=%d solomax=%d panics=%d known_panics=%d corr=%d oracle=%d corr_runs=%d c01=%d c03=%d c04=%d c10=%d c13=%d c05=%d c15=%d c18=%d c21=%d %s %s %s\n"
    !evals (Hashtbl.length distinct) !runs !maxsteps !failed_cas !pre_calls !post_calls !quiescent !snaps (get tag_counts "NOTEstale-split-leak") !solos !solomax !panics !known_panics
    (get kind_counts "CORR") (get kind_counts "ORACLE") !corr_runs (get tag_counts "ORACLE[C01]") (get tag_counts "ORACLE[C03]")
    (get tag_counts "ORACLE[C04]") (get tag_counts "ORACLE[C10]") (get tag_counts "ORACLE[C13]") (get tag_counts "ORACLE[C05]") (get tag_counts "ORACLE[C15]") (get tag_counts "ORACLE[C18]")
    (get tag_counts "ORACLE[C21]") (hist loc_hist "acc:") (hist mode_hist "mode:") (hist scn_hist "scn:")

let () =
  match Array.to_list Sys.argv with
  | _ :: "ustep" :: file :: rest -> suite file (match rest with k :: _ -> Some k | [] -> None)
  | _ ->
      prerr_endline "usage: ustep.exe ustep <transcript|-> [keys-file]";
      exit 2
