(* C17 / C18 / C08 (metadata half): replays transcripts of harness/src/bin/zonerun.rs.
   CORR   = the extracted model (coq/Meta.v: sizes, locations, meta_valid, zone_get/put/stats_at,
            nvm_layout/nvm_create) against the implementation's numbers and results.
   ORACLE = the statements of the property theorems (bounds, alignment, disjointness, conjugation,
            layout) evaluated directly on the implementation's own numbers with plain N arithmetic
            (Coq's N.add/sub/mul/div/modulo/comparisons), without the model's size/location functions. *)
open Model
open Conv
open Dcommon

(* ---------------------------------------------------------------- numbers *)
let ( +! ) = N.add
let ( -! ) = N.sub
let ( *! ) = N.mul
let ( /! ) = N.div
let ( %! ) = N.modulo
let ( =! ) = N.eqb
let ( <=! ) = N.leb
let ( <! ) = N.ltb
let ni = n_of_int
let nh = n_of_hex
let hx = hex_of_n
let n0 = N0
let two64 = w64
let pow2n o = N.pow (ni 2) (ni o)

let geo = ref { hord = nat_of_int 9; tlog = nat_of_int 2 }
let fs = ref (ni 4096)
let hord_i = ref 9
let tlog_i = ref 2

let set_geometry = function
  | [ h; t; f ] ->
      hord_i := int_of_string h;
      tlog_i := int_of_string t;
      geo := { hord = nat_of_int !hord_i; tlog = nat_of_int !tlog_i };
      fs := ni (int_of_string f)
  | _ -> failwith "bad G line"

let parse_cl s : (n * n) list =
  if s = "-" then []
  else
    List.map
      (fun e -> match String.split_on_char ':' e with [ c; k ] -> (ni (int_of_string c), ni (int_of_string k)) | _ -> failwith ("bad classing " ^ s))
      (String.split_on_char ',' s)

(* split a transcript line at " | " *)
let split_bar line =
  match String.index_opt line '|' with
  | None -> (line, "")
  | Some i -> (String.trim (String.sub line 0 i), String.trim (String.sub line (i + 1) (String.length line - i - 1)))

let starts s p = String.length s >= String.length p && String.sub s 0 (String.length p) = p

(* `key=value` fields of the zone lines; values may contain spaces (up to the next ` key=`) *)
let field line key =
  let k = key ^ "=" in
  let n = String.length line and kl = String.length k in
  let rec find i = if i + kl > n then None else if String.sub line i kl = k && (i = 0 || line.[i - 1] = ' ') then Some (i + kl) else find (i + 1) in
  match find 0 with
  | None -> ""
  | Some st ->
      (* ends at the next " xx=" where xx is one of the known keys *)
      let keys = [ " zone="; " twin="; " zs0="; " zs="; " ts=" ] in
      let e = ref n in
      List.iter
        (fun kk ->
          let l = String.length kk in
          let rec f i = if i + l > n then () else if String.sub line i l = kk then (if i < !e then e := i) else f (i + 1) in
          f st)
        keys;
      String.trim (String.sub line st (!e - st))

(* ---------------------------------------------------------------- meta suite *)
type sizes = { sl : int; st : int; sw : int }

let suite_meta file =
  let evals = ref 0 and hfail = ref 0 in
  let sizes : (string, sizes) Hashtbl.t = Hashtbl.create 1000 in
  let by_cl : (string, (int * sizes) list ref) Hashtbl.t = Hashtbl.create 16 in
  let distinct = Hashtbl.create 10000 in
  let touched : (string, (string, unit) Hashtbl.t) Hashtbl.t = Hashtbl.create 100 in
  let news = ref 0 and accesses = ref 0 and size_lines = ref 0 in
  let g () = !geo in
  iter_lines file (fun line ->
      match split line with
      | "G" :: r -> set_geometry r
      | [ "MS"; fr; cl; l; t; w ] ->
          incr evals;
          incr size_lines;
          let frn = ni (int_of_string fr) and cln = parse_cl cl in
          let li = int_of_string l and ti = int_of_string t and wi = int_of_string w in
          Hashtbl.replace sizes (fr ^ " " ^ cl) { sl = li; st = ti; sw = wi };
          (let r = try Hashtbl.find by_cl cl with Not_found -> let r = ref [] in Hashtbl.replace by_cl cl r; r in
           r := (int_of_string fr, { sl = li; st = ti; sw = wi }) :: !r);
          Hashtbl.replace distinct ("MS " ^ fr ^ " " ^ cl) ();
          (* CORR: the model's size functions *)
          let ml = int_of_n (local_size cln) and mt = int_of_n (trees_size (g ()) frn) and mw = int_of_n (lower_size (g ()) frn) in
          if (ml, mt, mw) <> (li, ti, wi) then
            report "CORR" (Printf.sprintf "metadata_size frames=%s cl=%s impl=(%d,%d,%d) model=(%d,%d,%d)" fr cl li ti wi ml mt mw);
          (* ORACLE: what the sizes have to provide, computed without the model *)
          let f = int_of_string fr in
          let hf = 1 lsl !hord_i and th = 1 lsl !tlog_i in
          let tf = hf * th in
          let dc a b = (a + b - 1) / b in
          let slots = List.fold_left (fun a (_, k) -> a + int_of_n k) 0 cln in
          let need_t = 4 * dc f tf and need_w = (dc f hf * (hf / 64) * 8) + (dc f tf * th * 2) in
          if li mod 64 <> 0 || ti mod 64 <> 0 || wi mod 64 <> 0 then report "ORACLE" (Printf.sprintf "metadata_size not cache-line multiples frames=%s cl=%s (%d,%d,%d)" fr cl li ti wi);
          if li < 64 * slots || ti < need_t || wi < need_w then
            report "ORACLE" (Printf.sprintf "metadata_size too small frames=%s cl=%s impl=(%d,%d,%d) needed>=(%d,%d,%d)" fr cl li ti wi (64 * slots) need_t need_w);
          if f = 0 && (ti <> 0 || wi <> 0) then report "ORACLE" (Printf.sprintf "metadata_size for 0 frames not empty (%d,%d)" ti wi);
          if slots = 0 && li <> 0 then report "ORACLE" (Printf.sprintf "metadata_size for 0 slots not empty (%d)" li)
      | "MN" :: fr :: cl :: init :: res ->
          incr evals;
          incr news;
          Hashtbl.replace distinct ("MN " ^ fr ^ " " ^ cl ^ " " ^ init) ();
          let free = if init = "allocall" then "0" else fr in
          let expect = [ "ok"; fr; free ] in
          if res <> expect then begin
            let t = Printf.sprintf "LLFree::new frames=%s cl=%s init=%s on exact-size buffers: impl=[%s] expected=[%s]" fr cl init (String.concat " " res) (String.concat " " expect) in
            report "CORR" t;
            report "ORACLE" t
          end
      | "MO" :: fr :: cl :: init :: res ->
          incr evals;
          if res <> [ "ok" ] then report "ORACLE" (Printf.sprintf "probe operations frames=%s cl=%s init=%s: %s" fr cl init (String.concat " " res))
      | [ "MA"; fr; cl; b; off; width ] ->
          incr evals;
          incr accesses;
          Hashtbl.replace distinct (line) ();
          let frn = ni (int_of_string fr) and cln = parse_cl cl in
          let o = int_of_string off and wd = int_of_string width in
          let sz = try Hashtbl.find sizes (fr ^ " " ^ cl) with Not_found -> failwith ("MA without MS: " ^ line) in
          let tch = try Hashtbl.find touched (fr ^ " " ^ cl) with Not_found -> let h = Hashtbl.create 64 in Hashtbl.replace touched (fr ^ " " ^ cl) h; h in
          (* ORACLE: inside the buffer the implementation asked for, aligned to its width *)
          let size = match b with "L" -> sz.sl | "T" -> sz.st | "W" -> sz.sw | _ -> failwith "bad buffer" in
          if o + wd > size || o mod wd <> 0 || not (List.mem wd [ 1; 2; 4; 8 ]) then
            report "ORACLE" (Printf.sprintf "access outside/misaligned frames=%s cl=%s buf=%s off=%d width=%d size=%d" fr cl b o wd size);
          (* CORR: it is a location of the model *)
          let gg = g () in
          let bb = int_of_n (bitfield_bytes gg) and tb = int_of_n (table_bytes gg) in
          let nb = int_of_n (nbf gg frn) and nt = int_of_n (ntab gg frn) in
          let th = int_of_n (tHUGE gg) and rows = int_of_n (rOWS gg) and hf = int_of_n (hF gg) in
          let bad what = report "CORR" (Printf.sprintf "access is not a model location (%s) frames=%s cl=%s buf=%s off=%d width=%d" what fr cl b o wd) in
          (match b with
           | "T" ->
               let t = o / 4 in
               if wd <> 4 || t >= nt || int_of_n (tree_loc (ni t)) <> o then bad "tree" else Hashtbl.replace tch (Printf.sprintf "t%d" t) ()
           | "L" ->
               let found = ref false in
               for c = 0 to 7 do
                 match class_lookup cln (ni c) n0 None with
                 | Some (_, cnt) ->
                     for i = 0 to int_of_n cnt - 1 do
                       match slot_loc cln (ni c) (ni i) with
                       | Some l when int_of_n l = o && wd = 8 -> found := true; Hashtbl.replace tch (Printf.sprintf "s%d.%d" c i) ()
                       | _ -> ()
                     done
                 | None -> ()
               done;
               if not !found then bad "slot"
           | _ ->
               let tstart = nb * bb in
               if o >= tstart then begin
                 let t = (o - tstart) / tb and c = (o - tstart) mod tb / 2 in
                 let h = (t * th) + c in
                 if wd <> 2 || c >= th || t >= nt || int_of_n (ent_loc gg frn (ni h)) <> o then bad "entry" else Hashtbl.replace tch (Printf.sprintf "e%d" h) ()
               end
               else begin
                 let h = o / bb and within = o mod bb in
                 if wd = 8 then begin
                   let r = within / 8 in
                   if h >= nb || r >= rows || int_of_n (row_loc gg (ni h) (ni r)) <> o then bad "row" else Hashtbl.replace tch (Printf.sprintf "r%d.%d" h r) ()
                 end
                 else begin
                   let order = match wd with 1 -> 3 | 2 -> 4 | 4 -> 5 | _ -> 0 in
                   let f = (h * hf) + (within / wd * (8 * wd)) in
                   if order = 0 || h >= nb || f >= hf * nb
                      || int_of_n (narrow_loc gg (ni f) (nat_of_int order)) <> o
                      || int_of_n (narrow_width (nat_of_int order)) <> wd
                   then bad "narrow"
                 end
               end)
      | "HFAIL" :: r ->
          incr hfail;
          report "ORACLE" ("harness: " ^ String.concat " " r)
      | [] -> ()
      | _ -> failwith ("meta: bad line " ^ line));
  (* ORACLE: sizes are monotone in the frame count *)
  Hashtbl.iter
    (fun cl r ->
      let l = List.sort compare !r in
      let rec go = function
        | (f1, a) :: ((f2, b) :: _ as rest) ->
            if a.st > b.st || a.sw > b.sw then report "ORACLE" (Printf.sprintf "metadata_size not monotone cl=%s frames %d -> %d: trees %d -> %d lower %d -> %d" cl f1 f2 a.st b.st a.sw b.sw);
            go rest
        | _ -> ()
      in
      go l)
    by_cl;
  (* coverage of the model's words by the probe *)
  let words = ref 0 and hit = ref 0 in
  Hashtbl.iter
    (fun key tch ->
      match split key with
      | [ fr; cl ] ->
          let frn = ni (int_of_string fr) and cln = parse_cl cl in
          let gg = g () in
          let nb = int_of_n (nbf gg frn) and nt = int_of_n (ntab gg frn) in
          let slots = ref 0 in
          for c = 0 to 7 do match class_lookup cln (ni c) n0 None with Some (_, k) -> slots := !slots + int_of_n k | None -> () done;
          words := !words + (nb * int_of_n (rOWS gg)) + (nt * int_of_n (tHUGE gg)) + nt + !slots;
          hit := !hit + Hashtbl.length tch
      | _ -> ())
    touched;
  Printf.printf "SUMMARY suite=meta evaluations=%d distinct=%d size_lines=%d constructions=%d accesses=%d model_words=%d words_touched=%d hfail=%d corr=%d oracle=%d\n" !evals
    (Hashtbl.length distinct) !size_lines !news !accesses !words !hit !hfail (count "CORR") (count "ORACLE")

(* ---------------------------------------------------------------- valid suite *)
let suite_valid file =
  let evals = ref 0 and accepted = ref 0 and rejected = ref 0 and conservative = ref 0 in
  let distinct = Hashtbl.create 10000 in
  let sizes : (string, n * n * n) Hashtbl.t = Hashtbl.create 100 in
  let tags = Hashtbl.create 50 in
  iter_lines file (fun line ->
      match split line with
      | "G" :: r -> set_geometry r
      | [ "MS"; fr; cl; l; t; w ] -> Hashtbl.replace sizes (fr ^ " " ^ cl) (ni (int_of_string l), ni (int_of_string t), ni (int_of_string w))
      | "V" :: fr :: cl :: la :: ll :: ta :: tl :: wa :: wl :: tag :: "|" :: res ->
          incr evals;
          Hashtbl.replace distinct (String.concat " " [ fr; cl; la; ll; ta; tl; wa; wl ]) ();
          Hashtbl.replace tags tag (1 + try Hashtbl.find tags tag with Not_found -> 0);
          let frn = ni (int_of_string fr) and cln = parse_cl cl in
          let mk a l = { b_addr = nh a; b_len = ni (int_of_string l) } in
          let bl = mk la ll and bt = mk ta tl and bw = mk wa wl in
          let res_s = String.concat " " res in
          let ok = starts res_s "ok" in
          if ok then incr accepted else incr rejected;
          let ctx = Printf.sprintf "frames=%s cl=%s local=%s+%s trees=%s+%s lower=%s+%s (%s)" fr cl la ll ta tl wa wl tag in
          (* CORR: MetaData::valid as modelled (plus: accepted => construction succeeds) *)
          let m = meta_valid !geo frn cln bl bt bw in
          let expect = if m then "ok " ^ fr else "err init" in
          if res_s <> expect then report "CORR" (Printf.sprintf "valid %s impl=[%s] model=[%s]" ctx res_s expect);
          (* ORACLE: computed from the implementation's own sizes, real intersection of byte ranges *)
          let rl, rt, rw = try Hashtbl.find sizes (fr ^ " " ^ cl) with Not_found -> failwith ("V without MS " ^ line) in
          let short = (bl.b_len <! rl) || (bt.b_len <! rt) || (bw.b_len <! rw) in
          let mis b = not ((b.b_addr %! ni 64) =! n0) in
          let misaligned = mis bl || mis bt || mis bw in
          let e b = b.b_addr +! b.b_len in
          let inter a b = (a.b_addr <! e b) && (b.b_addr <! e a) && not (a.b_len =! n0) && not (b.b_len =! n0) in
          let shared = inter bl bt || inter bt bw || inter bw bl in
          (* an empty buffer whose address lies in the closed range of a non-empty one *)
          let touch a b = (a.b_len =! n0) && (not (b.b_len =! n0)) && (b.b_addr <=! a.b_addr) && (a.b_addr <=! e b) in
          let touching = touch bl bt || touch bt bl || touch bt bw || touch bw bt || touch bw bl || touch bl bw in
          let bad = short || misaligned || shared in
          if starts res_s "panic" then report "ORACLE" (Printf.sprintf "construction panicked %s: %s" ctx res_s)
          else if ok && bad then
            report "ORACLE" (Printf.sprintf "bad buffers accepted (short=%b misaligned=%b shared-byte=%b) %s" short misaligned shared ctx)
          else if (not ok) && res_s <> "err init" then report "ORACLE" (Printf.sprintf "rejected with the wrong error %s: %s" ctx res_s)
          else if (not ok) && not bad then
            if touching then incr conservative
            else report "ORACLE" (Printf.sprintf "good buffers rejected %s" ctx)
      | "HFAIL" :: r -> report "ORACLE" ("harness: " ^ String.concat " " r)
      | [] -> ()
      | _ -> failwith ("valid: bad line " ^ line));
  Printf.printf "SUMMARY suite=valid evaluations=%d distinct=%d accepted=%d rejected=%d rejected_empty_touching=%d tags=%d corr=%d oracle=%d\n" !evals
    (Hashtbl.length distinct) !accepted !rejected !conservative (Hashtbl.length tags) (count "CORR") (count "ORACLE")

(* ---------------------------------------------------------------- zone suite *)
let err_of = function "mem" -> EMemory | "arg" -> EArgument | "init" -> EInit | s -> failwith ("bad error " ^ s)
let err_name = function EMemory -> "err mem" | EArgument -> "err arg" | EInit -> "err init"

exception Inner_called

let suite_zone file =
  let evals = ref 0 and below = ref 0 and conj = ref 0 and ovf = ref 0 and obs = ref 0 and creates = ref 0 in
  let distinct = Hashtbl.create 10000 in
  iter_lines file (fun line ->
      match split line with
      | "G" :: r -> set_geometry r
      | "ZC" :: _id :: off :: frames :: res ->
          incr evals;
          incr creates;
          let offn = nh off in
          let tf = tF !geo in
          let m = zone_create_ok !geo offn in
          let ok = (match res with "ok" :: _ -> true | _ -> false) in
          let res_s = String.concat " " res in
          if m <> ok then report "CORR" (Printf.sprintf "ZoneAlloc::create offset=%s frames=%s impl=[%s] model accepts=%b" off frames res_s m);
          let aligned = (offn %! tf) =! n0 in
          if aligned <> ok then report "ORACLE" (Printf.sprintf "ZoneAlloc::create offset=%s frames=%s impl=[%s] offset tree-aligned=%b" off frames res_s aligned);
          (match res with
           | [ "ok"; f; o ] -> if f <> frames || o <> off then report "ORACLE" (Printf.sprintf "ZoneAlloc::create offset=%s frames=%s reports frames=%s offset=%s" off frames f o)
           | _ -> if ok then report "ORACLE" ("ZoneAlloc::create: bad ok line " ^ line))
      | "ZO" :: _ -> incr obs
      | "Z" :: _id :: off :: frames :: op :: a1 :: a2 :: _a3 :: _a4 :: "|" :: _ ->
          incr evals;
          let _, rest = split_bar line in
          let zone = field rest "zone" and twin = field rest "twin" in
          let zs0 = field rest "zs0" and zs = field rest "zs" and ts = field rest "ts" in
          let offn = nh off and frn = ni (int_of_string frames) in
          let overflow = not ((offn +! frn) <=! two64) in
          Hashtbl.replace distinct (String.concat " " [ off; frames; op; a1; a2; zone; twin ]) ();
          let ctx = Printf.sprintf "offset=%s frames=%s %s %s order=%s zone=[%s] twin=[%s]" off frames op a1 a2 zone twin in
          let frame = if a1 = "-" then None else Some (nh a1) in
          let is_below = (match frame with Some f -> f <! offn | None -> false) in
          (* ---- CORR: the extracted wrapper around "the twin's answer" as inner allocator *)
          let model =
            try
              match op with
              | "get" ->
                  let inner _s _fr _rq =
                    match split twin with
                    | [ "ok"; f; c ] -> (Ok (nh f, c), 1)
                    | [ "err"; e ] -> (Err (err_of e), 1)
                    | "panic" :: _ -> (Panic SUndoFailedAll, 1)
                    | _ -> raise Inner_called
                  in
                  (match fst (zone_get inner offn 0 frame ()) with
                   | Ok (f, c) -> Printf.sprintf "ok %s %s" (hx f) c
                   | Err e -> err_name e
                   | Panic (SArith _) -> "panic overflow"
                   | Panic _ -> "panic inner")
              | "put" ->
                  let inner _s _f _rq =
                    match split twin with
                    | [ "ok" ] -> (Ok (), 1)
                    | [ "err"; e ] -> (Err (err_of e), 1)
                    | "panic" :: _ -> (Panic SUndoFailedAll, 1)
                    | _ -> raise Inner_called
                  in
                  (match frame with
                   | None -> "?"
                   | Some f -> (match fst (zone_put inner offn 0 f ()) with Ok () -> "ok" | Err e -> err_name e | Panic _ -> "panic inner"))
              | "stats_at" ->
                  let inner _s _f _o = if twin = "-" then raise Inner_called else twin in
                  (match frame with None -> "?" | Some f -> zone_stats_at inner "stats 0,0,0" offn 0 f O)
              | "put-unrepresentable" -> "-"
              | _ -> failwith ("zone: bad op " ^ line)
            with Inner_called -> "model forwards to the inner allocator but the harness did not (frame not below the offset?)"
          in
          let zone_n =
            if starts zone "panic" then (if starts zone "panic wrapper.rs" then "panic overflow" else "panic inner") else zone
          in
          if model <> zone_n then report "CORR" (Printf.sprintf "zone %s model=[%s]" ctx model);
          (* ---- ORACLE: conjugation statement on the implementation's numbers *)
          if op = "put-unrepresentable" then incr ovf
          else if is_below then begin
            incr below;
            let want = if op = "stats_at" then "stats 0,0,0" else "err arg" in
            if zone <> want then report "ORACLE" (Printf.sprintf "frame below the offset not rejected: %s expected=[%s]" ctx want);
            if zs0 <> zs then report "ORACLE" (Printf.sprintf "frame below the offset changed the state: %s stats %s -> %s" ctx zs0 zs)
          end
          else begin
            (match split twin with
             | [ "ok"; f; c ] when op = "get" ->
                 let sum = nh f +! offn in
                 if sum <! two64 then begin
                   incr conj;
                   let want = Printf.sprintf "ok %s %s" (hx sum) c in
                   if zone <> want then report "ORACLE" (Printf.sprintf "zone result is not inner + offset: %s expected=[%s]" ctx want)
                 end
                 else begin
                   incr ovf;
                   (* frame number not representable: anything but a silently wrong frame is tolerated *)
                   if starts zone "ok" then report "ORACLE" (Printf.sprintf "zone returned a wrapped frame number: %s" ctx)
                 end
             | _ ->
                 incr conj;
                 let t = if starts twin "panic" then "panic" else twin and z = if starts zone "panic" then "panic" else zone in
                 if t <> z then report "ORACLE" (Printf.sprintf "zone result differs from the inner allocator's: %s" ctx));
            if (not overflow) && zs <> ts then report "ORACLE" (Printf.sprintf "zone's inner state differs from the twin's: %s zone stats=%s twin stats=%s" ctx zs ts)
          end
      | "HFAIL" :: r -> report "ORACLE" ("harness: " ^ String.concat " " r)
      | [] -> ()
      | _ -> failwith ("zone: bad line " ^ line));
  Printf.printf "SUMMARY suite=zone evaluations=%d distinct=%d creates=%d conjugated=%d below_offset=%d unrepresentable=%d observations=%d corr=%d oracle=%d\n" !evals
    (Hashtbl.length distinct) !creates !conj !below !ovf !obs (count "CORR") (count "ORACLE")

(* ---------------------------------------------------------------- nvm suite *)
type inst = { base : n; z : n; managed : n; offset : n; lower_addr : n }

let suite_nvm file =
  let evals = ref 0 and creates = ref 0 and recovers_ok = ref 0 and refused = ref 0 and gets = ref 0 and hist = ref 0 in
  let distinct = Hashtbl.create 10000 in
  let insts : (string, inst) Hashtbl.t = Hashtbl.create 100 in
  let nc_failed : (string, unit) Hashtbl.t = Hashtbl.create 100 in
  let wrong_count = ref 0 and wrong_smaller = ref 0 and wrong_larger = ref 0 in
  iter_lines file (fun line ->
      match split line with
      | "G" :: r -> set_geometry r
      | "NC" :: id :: base :: z :: recv :: hm :: hf :: "|" :: res ->
          incr evals;
          Hashtbl.replace distinct (String.concat " " [ "NC"; z; recv; hm; hf; (match res with r :: _ -> r | [] -> "") ]) ();
          let basen = nh base and zn = ni (int_of_string z) and recover = recv = "1" in
          let hmn = nh hm and hfn = nh hf in
          let res_s = String.concat " " res in
          let ctx = Printf.sprintf "base=%s z=%s recover=%s header=(%s,%s) impl=[%s]" base z recv hm hf res_s in
          let g = !geo and f = !fs in
          (* CORR *)
          let model =
            match nvm_create g f basen zn recover hmn hfn with
            | Ok ((off, l), _) ->
                Printf.sprintf "ok %s %s %s %s" (dec_of_n l.nl_managed) (hx off) (hx (basen +! l.nl_lower_off)) (dec_of_n (lower_size g l.nl_managed))
            | Err e -> err_name e
            | Panic _ -> "panic (model)"
          in
          if model <> res_s then report "CORR" (Printf.sprintf "NvmAlloc::create %s model=[%s]" ctx model);
          (* ORACLE (no model): a recover is accepted iff the header holds the magic and exactly z - 1 *)
          if recover && (hmn =! nVM_MAGIC) && not (hfn =! (zn -! ni 1)) then begin
            incr wrong_count;
            if hfn <! (zn -! ni 1) then incr wrong_smaller else incr wrong_larger;
            if (match res with "ok" :: _ -> true | _ -> false) then begin
              Hashtbl.replace nc_failed id ();
              report "ORACLE"
                (Printf.sprintf "NvmAlloc::create recovered an instance of a different size (header records %s frames, the zone has z-1=%s): %s" hf
                   (hx (zn -! ni 1)) ctx)
            end
          end;
          (* ORACLE: layout statements on the implementation's numbers *)
          (match res with
           | [ "ok"; managed; off; la; ll ] ->
               if recover then incr recovers_ok else incr creates;
               let mn = ni (int_of_string managed) and offn = nh off and lan = nh la and lln = ni (int_of_string ll) in
               let header = basen +! ((zn -! ni 1) *! f) in
               let chk c t = if not c then report "ORACLE" (Printf.sprintf "NvmAlloc::create %s: %s" ctx t) in
               chk ((offn *! f) =! basen) "zone offset * FRAME_SIZE <> base";
               chk ((basen %! (f *! tF g)) =! n0) "accepted a base that is not tree-aligned";
               chk (mn <! zn) "managed count not below the zone length";
               chk ((basen +! (mn *! f)) <=! lan) "lower metadata starts inside the managed frames";
               chk ((lan +! lln) <=! header) "lower metadata reaches into the header page";
               chk ((lan %! ni 64) =! n0) "lower metadata not cache-line aligned";
               if recover then chk (hmn =! nVM_MAGIC) "recovered although the header does not hold the magic";
               Hashtbl.replace insts id { base = basen; z = zn; managed = mn; offset = offn; lower_addr = lan }
           | [ "err"; "init" ] ->
               incr refused;
               (* a region that holds an instance of exactly this size must be recovered *)
               if recover && (hmn =! nVM_MAGIC) && (hfn =! (zn -! ni 1)) && ((basen %! (f *! tF g)) =! n0) then begin
                 Hashtbl.replace nc_failed id ();
                 report "ORACLE" (Printf.sprintf "NvmAlloc::create refused to recover an instance of the same size: %s" ctx)
               end
           | _ ->
               Hashtbl.replace nc_failed id ();
               report "ORACLE" (Printf.sprintf "NvmAlloc::create %s" ctx))
      | [ "NG"; id; frame; order ] ->
          incr evals;
          incr gets;
          let i = try Hashtbl.find insts id with Not_found -> failwith ("NG without NC " ^ line) in
          let fr = nh frame and k = pow2n (int_of_string order) in
          Hashtbl.replace distinct (String.concat " " [ "NG"; dec_of_n i.z; hx (fr -! i.offset); order ]) ();
          let f = !fs in
          (* CORR: inside [offset, offset + managed) of the model's layout *)
          (match nvm_layout !geo f i.z with
           | Ok l ->
               if not ((i.offset <=! fr) && ((fr +! k) <=! (i.offset +! l.nl_managed))) then
                 report "CORR" (Printf.sprintf "NvmAlloc::get id=%s frame=%s order=%s outside the model's managed range [%s, +%s)" id frame order (hx i.offset) (dec_of_n l.nl_managed))
           | _ -> report "CORR" (Printf.sprintf "NvmAlloc::get id=%s: model has no layout for z=%s" id (dec_of_n i.z)));
          (* ORACLE: bytes of the block vs the implementation's own metadata address and the header page *)
          let s = fr *! f and e = (fr +! k) *! f in
          let header = i.base +! ((i.z -! ni 1) *! f) in
          if not ((i.base <=! s) && (e <=! i.lower_addr) && (e <=! header)) then
            report "ORACLE" (Printf.sprintf "NvmAlloc::get id=%s z=%s returned frame=%s order=%s whose bytes [%s,%s) overlap metadata (starts %s) or header (%s) or lie below the zone (%s)" id
                               (dec_of_n i.z) frame order (hx s) (hx e) (hx i.lower_addr) (hx header) (hx i.base))
      | [ "NS"; id; managed; held; fb; hb; fa; ha; fin ] ->
          incr evals;
          incr hist;
          Hashtbl.replace distinct ("NS " ^ id) ();
          let ctx = Printf.sprintf "id=%s managed=%s held=%s free/huge before=%s/%s after recover=%s/%s after frees=%s" id managed held fb hb fa ha fin in
          if fa = "-" then begin
            (* already reported with the NC line when the recover panicked *)
            if not (Hashtbl.mem nc_failed id) then report "ORACLE" ("recover of a created instance failed: " ^ ctx)
          end
          else begin
            let m = int_of_string managed and h = int_of_string held in
            if int_of_string fa <> m - h || fa <> fb || ha <> hb then report "ORACLE" ("recovered allocation state differs: " ^ ctx);
            if fin = "-" || int_of_string fin <> m then report "ORACLE" ("held blocks could not all be freed after recover: " ^ ctx)
          end
      | "NP" :: r ->
          incr evals;
          report "ORACLE" ("panic during the history: id=" ^ String.concat " " r)
      | "HFAIL" :: r -> report "ORACLE" ("harness: " ^ String.concat " " r)
      | [] -> ()
      | _ -> failwith ("nvm: bad line " ^ line));
  Printf.printf "SUMMARY suite=nvm evaluations=%d distinct=%d created=%d recovered=%d refused=%d recover_magic_ok_wrong_count=%d recorded_smaller=%d recorded_larger=%d returned_frames=%d histories=%d corr=%d oracle=%d\n" !evals
    (Hashtbl.length distinct) !creates !recovers_ok !refused !wrong_count !wrong_smaller !wrong_larger !gets !hist (count "CORR") (count "ORACLE")

let () =
  match Array.to_list Sys.argv with
  | _ :: "meta" :: file :: _ -> suite_meta file
  | _ :: "valid" :: file :: _ -> suite_valid file
  | _ :: "zone" :: file :: _ -> suite_zone file
  | _ :: "nvm" :: file :: _ -> suite_nvm file
  | _ ->
      prerr_endline "usage: meta.exe meta|valid|zone|nvm <transcript>";
      exit 2
