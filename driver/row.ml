(* C23 suite: rows *)
open Model
open Conv
open Dcommon

let show_row_res = function None -> "N" | Some (v, off) -> Printf.sprintf "S %s %s" (hex_of_n v) (dec_of_n off)

let suite_row file =
  let evals = ref 0 and some = ref 0 in
  let distinct = Hashtbl.create 100000 in
  iter_lines file (fun line ->
      match split line with
      | "R" :: v :: o :: rest ->
          incr evals;
          let impl = String.concat " " rest in
          if rest <> [ "N" ] then incr some;
          Hashtbl.replace distinct (v ^ " " ^ o) ();
          let vn = n_of_hex v and on = nat_of_int (int_of_string o) in
          let m = show_row_res (fza vn on) in
          let sp = show_row_res (row_spec vn on) in
          if m <> impl then report "CORR" (Printf.sprintf "row v=%s o=%s impl=[%s] model=[%s]" v o impl m);
          if sp <> impl then report "ORACLE" (Printf.sprintf "row v=%s o=%s impl=[%s] spec=[%s]" v o impl sp)
      | [] -> ()
      | _ -> failwith ("row: bad line " ^ line));
  Printf.printf "SUMMARY suite=row evaluations=%d distinct=%d found=%d corr=%d oracle=%d\n" !evals (Hashtbl.length distinct) !some
    (count "CORR") (count "ORACLE")

let () =
  match Array.to_list Sys.argv with
  | _ :: "row" :: file :: _ -> suite_row file
  | _ ->
      prerr_endline "usage: row.exe row <transcript>";
      exit 2
