#!/bin/sh
# usage: build.sh <name>
# Extracts coq/Extract_<name>.v (which must write "model.ml") into driver/gen/<name>/ and builds
# driver/<name>.exe from model.ml + conv.ml + dcommon.ml + <name>.ml.
set -e
cd "$(dirname "$0")"
n="$1"
mkdir -p "gen/$n"
( cd "gen/$n" && coqc -Q ../../../coq LLF -o "$PWD/Extract_$n.vo" "../../../coq/Extract_$n.v" > extract.log 2>&1 ) || { cat "gen/$n/extract.log"; exit 1; }
cp conv.ml dcommon.ml "$n.ml" "gen/$n/"
cd "gen/$n"
ocamlfind ocamlopt -O3 -w -a model.mli model.ml conv.ml dcommon.ml "$n.ml" -o "../../$n.exe" 2> build.log \
  || ocamlfind ocamlopt -w -a model.mli model.ml conv.ml dcommon.ml "$n.ml" -o "../../$n.exe"
