#!/bin/sh
# Extract the model from the compiled Coq development and build the driver.
set -e
cd "$(dirname "$0")"
mkdir -p gen
( cd gen && coqc -Q ../../coq LLF ../../coq/Extract.v > extract.log 2>&1 ) || { cat gen/extract.log; exit 1; }
cp conv.ml driver.ml gen/
cd gen
ocamlfind ocamlopt -O3 -w -a -package str model.mli model.ml conv.ml driver.ml -o ../driver.exe 2> build.log \
  || ocamlfind ocamlopt -w -a model.mli model.ml conv.ml driver.ml -o ../driver.exe
