(* C16 suite `search`: the order in which the compiled `Trees::search_best::<N, _>` calls `access`.
   Transcript lines (harness/src/bin/searchrun.rs):
     S <N> <TF> <start> <offset> <len> <stop> <entries> <table> <accesses> <result>
       <stop>     - | o<k> | e<k>     (the k-th `access` call answers Ok(()) / Err(Argument); all others Err(Memory))
       <entries>  free:reserved:class,...                 (ntrees = their number)
       <table>    rating table: rows (class 0, 1, ...) separated by `/`, 5 ranks per row (`,`), missing rows = Invalid;
                  rate(class, free) = rank table[class][bucket free],
                  bucket: 0 = (free = 0), 1 = (free < TF/2), 2 = (free < TF), 3 = (free = TF), 4 = (free > TF);
                  rank: 0..255 = Match(rank), 256 = Demote, 257 = Steal, 258 = Invalid
       <accesses> tree indices in call order (`,`), `-` if none
       <result>   M | OK | EARG | EINIT | PANIC
   CORR   : accesses = the extracted `search_order N TF rate trees start offset len` (its first k elements and the
            stop's result when the order has at least k elements; else all of it and M).
   ORACLE : computed here from the transcript alone (plain OCaml ints, no model code, no candidate buffer):
            walk = (start + ntrees + (0, -1, +1, -2, ...)) mod ntrees for i in offset..len-1;
            P = the non-reserved trees of the walk rated Match(255), in walk order;
            C = the non-reserved trees of the walk rated neither Match(255) nor Invalid, key = (rank, free = TF);
            accesses = P ++ T with: keys of T non-increasing, T a sub-multiset of C, |T| = min N |C|,
            keys of T = the |T| largest keys of C (OCaml sort); result M.
            When the stop fired (k calls were made): accesses is a k-prefix of such a sequence (P-part exact, the
            rest j trees: non-increasing, sub-multiset of C, j <= min N |C|, keys = the j largest) and result = OK/EARG. *)
open Model
open Conv
open Dcommon

let ints s = if s = "-" || s = "" then [] else String.split_on_char ',' s |> List.filter (fun e -> e <> "") |> List.map int_of_string
let show l = match l with [] -> "-" | _ -> String.concat "," (List.map string_of_int l)
let rec take n l = if n <= 0 then [] else match l with [] -> [] | a :: r -> a :: take (n - 1) r
let rec drop n l = if n <= 0 then l else match l with [] -> [] | _ :: r -> drop (n - 1) r
let rec non_increasing = function a :: (b :: _ as r) -> compare a b >= 0 && non_increasing r | _ -> true

(* multiset inclusion of ascending lists *)
let rec sub_sorted a b =
  match (a, b) with
  | [], _ -> true
  | _, [] -> false
  | x :: a', y :: b' -> if x = y then sub_sorted a' b' else if compare x y > 0 then sub_sorted a b' else false

let invalid = 258

type case = {
  cap : int;
  tf : int;
  start : int;
  offset : int;
  len : int;
  stop : (int * string) option; (* k, result when it fires *)
  entries : (int * bool * int) array;
  table : int array array;
}

let parse_stop s =
  if s = "-" then None
  else
    let k = int_of_string (String.sub s 1 (String.length s - 1)) in
    match s.[0] with 'o' -> Some (k, "OK") | 'e' -> Some (k, "EARG") | _ -> failwith ("search: bad stop " ^ s)

let parse_entries s =
  String.split_on_char ',' s
  |> List.filter (fun e -> e <> "")
  |> List.map (fun e ->
         match String.split_on_char ':' e with
         | [ f; r; c ] -> (int_of_string f, r = "1", int_of_string c)
         | _ -> failwith ("search: bad entry " ^ e))
  |> Array.of_list

let parse_table s =
  String.split_on_char '/' s
  |> List.map (fun row ->
         let v = Array.of_list (ints row) in
         if Array.length v <> 5 then failwith ("search: bad table row " ^ row);
         v)
  |> Array.of_list

let bucket tf free = if free = 0 then 0 else if free < tf / 2 then 1 else if free < tf then 2 else if free = tf then 3 else 4
let rank_of c cls free = if cls < Array.length c.table then min invalid c.table.(cls).(bucket c.tf free) else invalid

(* ---- the model ---- *)
let policy_of_rank r = if r <= 255 then PMatch (n_of_int r) else if r = 256 then PDemote else if r = 257 then PSteal else PInvalid

let model_order c : int list =
  let pol = Array.map (Array.map policy_of_rank) c.table in
  let rate cls free =
    let cls = int_of_n cls in
    if cls < Array.length pol then pol.(cls).(bucket c.tf (int_of_n free)) else PInvalid
  in
  let trees =
    Array.to_list c.entries |> List.map (fun (f, r, k) -> { te_free = n_of_int f; te_reserved = r; te_class = n_of_int k })
  in
  search_order (nat_of_int c.cap) (n_of_int c.tf) rate trees (n_of_int c.start) (n_of_int c.offset) (n_of_int c.len)
  |> List.map int_of_n

(* ---- the oracle's own reading of the case ---- *)
type view = { perfect : int list; cands : ((int * bool) * int) list (* key, tree; in walk order *) }

let view c : view =
  let n = Array.length c.entries in
  let p = ref [] and cs = ref [] in
  for i = c.offset to c.len - 1 do
    let off = if i mod 2 = 0 then i / 2 else -((i + 1) / 2) in
    let idx = (((c.start + n + off) mod n) + n) mod n in
    let free, reserved, cls = c.entries.(idx) in
    if not reserved then begin
      let r = rank_of c cls free in
      if r = 255 then p := idx :: !p else if r < invalid then cs := ((r, free = c.tf), idx) :: !cs
    end
  done;
  { perfect = List.rev !p; cands = List.rev !cs }

let oracle c (v : view) (acc : int list) (res : string) : string option =
  let n = Array.length c.entries in
  let na = List.length acc in
  let fired = match c.stop with Some (k, _) -> na = k | None -> false in
  let m = min c.cap (List.length v.cands) in
  let np = List.length v.perfect in
  let desc l = List.sort (fun a b -> compare b a) l in
  let key idx =
    let free, _, cls = c.entries.(idx) in
    (rank_of c cls free, free = c.tf)
  in
  if res = "PANIC" then Some "panic"
  else if List.exists (fun i -> i < 0 || i >= n) acc then Some "tree-index-out-of-range"
  else if (match c.stop with Some (k, _) -> na > k | None -> false) then Some "calls-after-a-result-other-than-Err(Memory)"
  else if fired && res <> snd (Option.get c.stop) then Some ("result expected=" ^ snd (Option.get c.stop))
  else if (not fired) && res <> "M" then Some "result expected=M"
  else if take np acc <> take (if fired then min np na else np) v.perfect then
    Some ("perfect-matches-not-first-in-walk-order expected=" ^ show v.perfect)
  else begin
    let t = drop np acc in
    let j = List.length t in
    let tk = List.map key t in
    let top = take j (desc (List.map fst v.cands)) in
    if (not fired) && j <> m then Some (Printf.sprintf "tried=%d candidates expected=%d" j m)
    else if fired && j > m then Some (Printf.sprintf "tried=%d candidates expected<=%d" j m)
    else if not (sub_sorted (List.sort compare t) (List.sort compare (List.map snd v.cands))) then
      Some "not-a-sub-multiset-of-the-candidates"
    else if not (non_increasing tk) then Some "not-best-first"
    else if tk <> top then
      Some
        ("not-the-top-keys expected_keys="
        ^ String.concat "," (List.map (fun (r, f) -> Printf.sprintf "%d%s" r (if f then "f" else "p")) top))
    else None
  end

let suite_search file =
  let evals = ref 0 and overflow = ref 0 and perfect = ref 0 and ties = ref 0 and conflict = ref 0 and fired = ref 0 in
  let revisit = ref 0 and panics = ref 0 and maxtrees = ref 0 and stops = ref 0 and empty = ref 0 in
  let caps = Array.make 9 0 and sizes = Array.make 3 0 in
  let distinct = Hashtbl.create 200000 and seqs = Hashtbl.create 100000 in
  let short s = if String.length s <= 16 then s else Digest.string s in
  iter_lines file (fun line ->
      match split line with
      | [ "S"; cap; tf; start; offset; len; stop; entries; table; accs; res ] ->
          incr evals;
          let c =
            { cap = int_of_string cap; tf = int_of_string tf; start = int_of_string start; offset = int_of_string offset;
              len = int_of_string len; stop = parse_stop stop; entries = parse_entries entries; table = parse_table table }
          in
          let n = Array.length c.entries in
          if n = 0 then failwith ("search: no trees " ^ line);
          let input = String.concat " " [ "S"; cap; tf; start; offset; len; stop; entries; table ] in
          let acc = ints accs in
          let v = view c in
          let nc = List.length v.cands and np = List.length v.perfect in
          (* what was generated *)
          if c.cap <= 8 then caps.(c.cap) <- caps.(c.cap) + 1;
          let sz = if n <= 5 then 0 else if n <= 16 then 1 else 2 in
          sizes.(sz) <- sizes.(sz) + 1;
          if n > !maxtrees then maxtrees := n;
          if nc > c.cap then incr overflow;
          if np > 0 then incr perfect;
          if c.len > n then incr revisit;
          if c.stop <> None then incr stops;
          if acc = [] then incr empty;
          let keys = List.map fst v.cands in
          if List.length (List.sort_uniq compare keys) < nc then incr ties;
          (* an entirely free candidate rated lower than a partially filled one: the two key components disagree *)
          let minfull = List.fold_left (fun a (r, f) -> if f then min a r else a) max_int keys in
          let maxpart = List.fold_left (fun a (r, f) -> if f then a else max a r) (-1) keys in
          if minfull < maxpart then incr conflict;
          (match c.stop with Some (k, _) when List.length acc = k -> incr fired | _ -> ());
          if np + nc >= 2 then Hashtbl.replace distinct (short input) ();
          Hashtbl.replace seqs (short accs) ();
          (* CORR *)
          let order = model_order c in
          let exp_acc, exp_res =
            match c.stop with
            | Some (k, r) when List.length order >= k -> (take k order, r)
            | _ -> (order, "M")
          in
          if res = "PANIC" then incr panics;
          if acc <> exp_acc || res <> exp_res then
            report "CORR" (Printf.sprintf "search in=[%s] impl=%s/%s model=%s/%s" input accs res (show exp_acc) exp_res);
          (* ORACLE *)
          (match oracle c v acc res with
          | None -> ()
          | Some why -> report "ORACLE" (Printf.sprintf "search in=[%s] impl=%s/%s violates=%s" input accs res why))
      | [] -> ()
      | t :: _ when String.length t > 0 && t.[0] = '#' -> ()
      | _ -> failwith ("search: bad line " ^ line));
  Printf.printf
    "SUMMARY suite=search evaluations=%d distinct=%d overflow=%d perfect=%d ties=%d conflict=%d stops=%d fired=%d revisit=%d \
     empty=%d sequences=%d panics=%d maxtrees=%d"
    !evals (Hashtbl.length distinct) !overflow !perfect !ties !conflict !stops !fired !revisit !empty (Hashtbl.length seqs) !panics
    !maxtrees;
  Array.iteri (fun i k -> if k > 0 then Printf.printf " cap%d=%d" i k) caps;
  Array.iteri (fun i k -> Printf.printf " %s=%d" [| "trees1_5"; "trees6_16"; "trees17_64" |].(i) k) sizes;
  Printf.printf " corr=%d oracle=%d\n" (count "CORR") (count "ORACLE")

let () =
  match Array.to_list Sys.argv with
  | _ :: "search" :: file :: _ -> suite_search file
  | _ ->
      prerr_endline "usage: search.exe search <transcript>";
      exit 2
