#!/bin/sh
# Build the framework from files on disk only (offline): Coq development, extracted models + drivers, Rust harnesses.
# Every check rebuilds what it needs itself; this only warms the caches, so a failure of an unclaimed
# (in-progress) file does not fail the setup, but a failure of a claimed property's theorem file does.
cd "$(dirname "$0")"
export CARGO_NET_OFFLINE=true
mkdir -p work
python3 -c "import sys; sys.path.insert(0,'lib'); import vlib; vlib.gen_coqproject()"
( cd coq && timeout 3000 make -k -j16 > ../work/coq-build.log 2>&1 ) || echo "note: some Coq files did not build (see work/coq-build.log)"
rc=0
for p in $(python3 -c "import json; print(' '.join(c['property_id'] for c in json.load(open('MANIFEST.json'))['checks']))"); do
  ( cd coq && timeout 3000 make -j16 "Properties/$p.vo" > "../work/coq-$p.log" 2>&1 ) || { echo "FAILED: Properties/$p.vo"; tail -20 "work/coq-$p.log"; rc=1; }
done
for e in coq/Extract_*.v; do n=$(basename "$e" .v); sh driver/build.sh "${n#Extract_}" > "work/driver-${n#Extract_}.log" 2>&1 || echo "note: driver ${n#Extract_} did not build"; done
( cd harness && CARGO_TARGET_DIR=../target/default cargo build --release --offline 2>&1 | tail -3 )
[ -d harness-eval ] && ( cd harness-eval && CARGO_TARGET_DIR=../target/eval cargo build --release --offline 2>&1 | tail -3 )
echo "setup done rc=$rc"
exit $rc
