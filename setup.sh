#!/bin/sh
# Build the framework from files on disk only (offline): Coq development, extracted model + driver, Rust harness.
set -e
cd "$(dirname "$0")"
export CARGO_NET_OFFLINE=true
( cd coq && coq_makefile -f _CoqProject -o Makefile > /dev/null && timeout 3000 make -j16 > ../work/coq-build.log 2>&1 || { tail -50 ../work/coq-build.log; exit 1; } )
sh driver/build.sh
( cd harness && CARGO_TARGET_DIR=../target/default cargo build --release --offline 2>&1 | tail -3 )
echo setup done
