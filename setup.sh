#!/bin/sh
# Build the framework from files on disk only (offline): Coq development, extracted model + driver, Rust harness.
set -e
cd "$(dirname "$0")"
export CARGO_NET_OFFLINE=true
mkdir -p work
python3 -c "import sys; sys.path.insert(0,'lib'); import vlib; vlib.gen_coqproject()"
( cd coq && timeout 3000 make -j16 > ../work/coq-build.log 2>&1 || { tail -50 ../work/coq-build.log; exit 1; } )
for e in coq/Extract_*.v; do n=$(basename "$e" .v); sh driver/build.sh "${n#Extract_}"; done
( cd harness && CARGO_TARGET_DIR=../target/default cargo build --release --offline 2>&1 | tail -3 )
echo setup done
