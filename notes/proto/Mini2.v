(* Throw-away prototype 2: one huge frame = R rows of B bits, with small / row / huge
   allocation, frees, and the huge-marker split protocol (fill rows with rollback, clear marker,
   bounded spin).  Unbounded threads, all schedules. *)
From Coq Require Import List Arith Lia Bool.
Import ListNotations.

Fixpoint upd {A} (l : list A) (i : nat) (x : A) : list A :=
  match l, i with [], _ => [] | _ :: r, O => x :: r | a :: r, S j => a :: upd r j x end.
Lemma upd_length {A} (l : list A) i x : length (upd l i x) = length l.
Proof. revert i; induction l; destruct i; simpl; auto. Qed.
Lemma nth_upd_same {A} (l : list A) i x d : i < length l -> nth i (upd l i x) d = x.
Proof. revert i; induction l; destruct i; simpl; intros; try lia; auto. apply IHl; lia. Qed.
Lemma nth_upd_other {A} (l : list A) i j x d : i <> j -> nth j (upd l i x) d = nth j l d.
Proof. revert i j; induction l; destruct i, j; simpl; intros; try lia; auto. Qed.

Definition b2n (b : bool) := if b then 1 else 0.

Section M2.
Variable B : nat.           (* bits per row *)
Variable RETRIES : nat.

Definition rzero (w : (list bool)) := forallb negb w.
Definition rones (w : (list bool)) := forallb (fun b => b) w.
Fixpoint first0 (l : (list bool)) : option nat :=
  match l with [] => None | b :: r => if b then option_map S (first0 r) else Some 0 end.
Fixpoint zeros1 (l : (list bool)) : nat := match l with [] => 0 | b :: r => (if b then 0 else 1) + zeros1 r end.
Definition zeros (m : list (list bool)) := fold_right (fun w a => zeros1 w + a) 0 m.

Inductive blk := Small (r j : nat) | Row (r : nat) | Huge.
Definition size (b : blk) (R : nat) := match b with Small _ _ => 1 | Row _ => B | Huge => R * B end.
Definition cover (b : blk) (r j : nat) : nat :=
  match b with
  | Small r' j' => if (r =? r') && (j =? j') then 1 else 0
  | Row r' => if r =? r' then 1 else 0
  | Huge => 1
  end.

Inductive pc :=
| Idle
| S1 | S2 (r : nat) | S3
| R1 | R2 (r : nat) | R3
| H1
| P1 (b : blk) | PP (b : blk) (q : nat) | PPU (b : blk) (q : nat) | PP2 (b : blk) | PP3 (b : blk) (n : nat)
| PS1 (b : blk) | PS2 (b : blk)
| PH
| PanicKnown (b : blk) | PanicBad.

Record st := { ent : option nat; rows : list (list bool); pool : list pc; held : list blk }.
Definition R (s : st) := length (rows s).
Definition T (s : st) := R s * B.

Inductive choice := CGetS | CGetR | CGetH | CPut (k : nat) | CSplit (k : nat).   (* k: index into held *)

Definition setp s t p := {| ent := ent s; rows := rows s; pool := upd (pool s) t p; held := held s |}.
Definition w_ent s e := {| ent := e; rows := rows s; pool := pool s; held := held s |}.
Definition w_rows s m := {| ent := ent s; rows := m; pool := pool s; held := held s |}.
Definition w_held s h := {| ent := ent s; rows := rows s; pool := pool s; held := h |}.

Fixpoint remove_nth {A} (k : nat) (l : list A) : list A :=
  match l, k with [], _ => [] | _ :: r, O => r | a :: r, S k' => a :: remove_nth k' r end.

Definition split_blk (b : blk) (Rn : nat) : list blk :=
  match b with
  | Huge => map Row (seq 0 Rn)
  | Row r => map (Small r) (seq 0 B)
  | Small r j => [Small r j]
  end.

Definition row_at s r := nth r (rows s) [].
Definition inc (s : st) (t : nat) (n : nat) : st :=
  match ent s with
  | Some c => if c + n <=? T s then setp (w_ent s (Some (c + n))) t Idle else setp s t PanicBad
  | None => setp s t PanicBad
  end.

Definition step (s : st) (t : nat) (ch : choice) : st :=
  match nth t (pool s) PanicBad with
  | Idle =>
      match ch with
      | CGetS => setp s t S1 | CGetR => setp s t R1 | CGetH => setp s t H1
      | CPut k => match nth_error (held s) k with
                  | Some Huge => setp (w_held s (remove_nth k (held s))) t PH
                  | Some b => setp (w_held s (remove_nth k (held s))) t (P1 b)
                  | None => s end
      | CSplit k => match nth_error (held s) k with
                    | Some b => w_held s (split_blk b (R s) ++ remove_nth k (held s))
                    | None => s end
      end
  | S1 => match ent s with
          | Some c => if 1 <=? c then setp (w_ent s (Some (c - 1))) t (S2 0) else setp s t Idle
          | None => setp s t Idle end
  | S2 r => if R s <=? r then setp s t S3 else
            match first0 (row_at s r) with
            | Some j => setp (w_held (w_rows s (upd (rows s) r (upd (row_at s r) j true))) (Small r j :: held s)) t Idle
            | None => setp s t (S2 (S r)) end
  | S3 => inc s t 1
  | R1 => match ent s with
          | Some c => if B <=? c then setp (w_ent s (Some (c - B))) t (R2 0) else setp s t Idle
          | None => setp s t Idle end
  | R2 r => if R s <=? r then setp s t R3 else
            if rzero (row_at s r)
            then setp (w_held (w_rows s (upd (rows s) r (repeat true B))) (Row r :: held s)) t Idle
            else setp s t (R2 (S r))
  | R3 => inc s t B
  | H1 => match ent s with
          | Some c => if c =? T s then setp (w_held (w_ent s None) (Huge :: held s)) t Idle else setp s t Idle
          | None => setp s t Idle end
  | P1 b => match ent s with
            | None => setp s t (PP b 0)
            | Some c => if c + size b (R s) <=? T s then setp s t (PS1 b) else setp s t PanicBad end
  | PP b q => if rzero (row_at s q)
              then setp (w_rows s (upd (rows s) q (repeat true B))) t (if S q =? R s then PP2 b else PP b (S q))
              else setp s t (PPU b q)
  | PPU b q => match q with
               | O => setp s t (PP3 b 0)
               | S q' => if rones (row_at s q')
                         then setp (w_rows s (upd (rows s) q' (repeat false B))) t (PPU b q')
                         else setp s t PanicBad end
  | PP2 b => match ent s with
             | None => setp (w_ent s (Some 0)) t (PS1 b)
             | Some _ => setp s t PanicBad end
  | PP3 b n => match ent s with
               | Some _ => setp s t (PS1 b)
               | None => if RETRIES <=? S n then setp s t (PanicKnown b) else setp s t (PP3 b (S n)) end
  | PS1 b => match b with
             | Small r j => if nth j (row_at s r) false
                            then setp (w_rows s (upd (rows s) r (upd (row_at s r) j false))) t (PS2 b)
                            else setp s t PanicBad
             | Row r => if rones (row_at s r)
                        then setp (w_rows s (upd (rows s) r (repeat false B))) t (PS2 b)
                        else setp s t PanicBad
             | Huge => setp s t PanicBad end
  | PS2 b => inc s t (size b (R s))
  | PH => match ent s with
          | None => setp (w_ent s (Some (T s))) t Idle
          | Some _ => setp s t PanicBad end
  | PanicKnown _ | PanicBad => s
  end.

Definition run (sch : list (nat * choice)) (s : st) : st :=
  fold_left (fun s tc => step s (fst tc) (snd tc)) sch s.

Definition boot (Rn n : nat) : st :=
  {| ent := Some (Rn * B); rows := repeat (repeat false B) Rn; pool := repeat Idle n; held := [] |}.


(* ------------------------------------------------------------------ *)
(* sums                                                                *)
Definition sumf {A} (f : A -> nat) (l : list A) := fold_right (fun p a => f p + a) 0 l.
Definition ssum (n : nat) (g : nat -> nat) := sumf g (seq 0 n).
Definition gsum (Rn : nat) (g : nat -> nat -> nat) := ssum Rn (fun r => ssum B (g r)).

Lemma sumf_upd {A} (f : A -> nat) l t p d : t < length l ->
  sumf f (upd l t p) + f (nth t l d) = sumf f l + f p.
Proof. revert t; induction l as [|a r IH]; destruct t; simpl; intros H; try lia.
  specialize (IH t ltac:(lia)). lia. Qed.
Lemma sumf_ge {A} (f : A -> nat) l t d : t < length l -> f (nth t l d) <= sumf f l.
Proof. revert t; induction l as [|a r IH]; destruct t; simpl; intros H; try lia.
  specialize (IH t ltac:(lia)). lia. Qed.
Lemma sumf_ext_in {A} (f g : A -> nat) l : (forall x, In x l -> f x = g x) -> sumf f l = sumf g l.
Proof. induction l; simpl; intros H; [reflexivity|]. rewrite (H a), IHl; auto. Qed.
Lemma sumf_le_in {A} (f g : A -> nat) l : (forall x, In x l -> f x <= g x) -> sumf f l <= sumf g l.
Proof. induction l; simpl; intros H; [lia|]. pose proof (H a (or_introl eq_refl)). specialize (IHl (fun x Hx => H x (or_intror Hx))). lia. Qed.
Lemma sumf_add {A} (f g : A -> nat) l : sumf (fun x => f x + g x) l = sumf f l + sumf g l.
Proof. induction l; simpl; lia. Qed.
Lemma sumf_mulc {A} (f : A -> nat) c l : sumf (fun x => c * f x) l = c * sumf f l.
Proof. induction l; simpl; lia. Qed.
Lemma sumf_swap {A C} (f : A -> C -> nat) (la : list A) (lc : list C) :
  sumf (fun a => sumf (f a) lc) la = sumf (fun c => sumf (fun a => f a c) la) lc.
Proof. induction la; simpl.
  - induction lc; simpl; auto.
  - rewrite IHla. rewrite <- sumf_add. reflexivity. Qed.
Lemma sumf_zero {A} (f : A -> nat) l : sumf f l = 0 -> forall x, In x l -> f x = 0.
Proof. induction l; simpl; intros H x Hx; [tauto|]. destruct Hx as [->|Hx]; [lia|apply IHl; [lia|exact Hx]]. Qed.
Lemma sumf_map {A C} (f : C -> nat) (g : A -> C) l : sumf f (map g l) = sumf (fun x => f (g x)) l.
Proof. induction l; simpl; auto. Qed.
Lemma sumf_app {A} (f : A -> nat) l1 l2 : sumf f (l1 ++ l2) = sumf f l1 + sumf f l2.
Proof. induction l1; simpl; lia. Qed.
Lemma sumf_nth {A} (f : A -> nat) l d : sumf f l = ssum (length l) (fun i => f (nth i l d)).
Proof. unfold ssum. induction l as [|a r IH]; simpl; auto.
  rewrite <- seq_shift, sumf_map, IH. reflexivity. Qed.
Lemma ssum_ext n g h : (forall i, i < n -> g i = h i) -> ssum n g = ssum n h.
Proof. intros H. apply sumf_ext_in. intros x Hx. apply in_seq in Hx. apply H; lia. Qed.
Lemma ssum_le n g h : (forall i, i < n -> g i <= h i) -> ssum n g <= ssum n h.
Proof. intros H. apply sumf_le_in. intros x Hx. apply in_seq in Hx. apply H; lia. Qed.
Lemma ssum_indicator n k : ssum n (fun i => if i =? k then 1 else 0) = if k <? n then 1 else 0.
Proof. unfold ssum. induction n; [reflexivity|]. rewrite seq_S, sumf_app, IHn. simpl.
  destruct (Nat.eqb_spec n k), (Nat.ltb_spec k n), (Nat.ltb_spec k (S n)); lia. Qed.
Lemma ssum_lt n k : ssum n (fun i => if i <? k then 1 else 0) = Nat.min k n.
Proof. unfold ssum. induction n; [simpl; lia|]. rewrite seq_S, sumf_app, IHn. simpl.
  destruct (Nat.ltb_spec n k); lia. Qed.
Lemma ssum_const n c : ssum n (fun _ => c) = n * c.
Proof. unfold ssum. induction n; [reflexivity|]. rewrite seq_S, sumf_app, IHn. simpl. lia. Qed.

(* rows *)
Fixpoint ones1 (l : (list bool)) : nat := match l with [] => 0 | b :: r => b2n b + ones1 r end.
Lemma ones_zeros1 w : ones1 w + zeros1 w = length w.
Proof. induction w as [|[] r]; simpl; lia. Qed.
Lemma ones1_nth w : ones1 w = ssum (length w) (fun j => b2n (nth j w false)).
Proof. rewrite <- (sumf_nth b2n w false). induction w; simpl; auto. Qed.
Lemma rzero_spec w : rzero w = true -> forall j, nth j w false = false.
Proof. unfold rzero. induction w as [|b r IH]; simpl; intros H j; [destruct j; reflexivity|].
  destruct b; simpl in H; [discriminate|]. destruct j; [reflexivity|]. apply IH, H. Qed.
Lemma rzero_zeros w : rzero w = true -> zeros1 w = length w.
Proof. unfold rzero. induction w as [|b r IH]; simpl; intros H; [reflexivity|]. destruct b; simpl in H; [discriminate|]. rewrite IH by exact H. reflexivity. Qed.
Lemma rones_spec w : rones w = true -> forall j, j < length w -> nth j w false = true.
Proof. unfold rones. induction w as [|b r IH]; simpl; intros H j Hj; [lia|]. destruct b; simpl in H; [|discriminate].
  destruct j; auto. apply IH; auto; lia. Qed.
Lemma rones_zeros w : rones w = true -> zeros1 w = 0.
Proof. unfold rones. induction w as [|b r IH]; simpl; intros H; [reflexivity|]. destruct b; simpl in H; [|discriminate]. apply IH, H. Qed.
Lemma zeros1_repeat_true n : zeros1 (repeat true n) = 0. Proof. induction n; simpl; auto. Qed.
Lemma zeros1_repeat_false n : zeros1 (repeat false n) = n. Proof. induction n; simpl; auto. Qed.
Lemma nth_repeat {A} (x d : A) n j : j < n -> nth j (repeat x n) d = x.
Proof. revert j; induction n; destruct j; simpl; intros; try lia; auto. apply IHn; lia. Qed.
Lemma first0_spec l i : first0 l = Some i -> i < length l /\ nth i l false = false.
Proof. revert i; induction l as [|b r IH]; simpl; intros i H; [discriminate|].
  destruct b; [|inversion H; subst; simpl; split; [lia|auto]].
  destruct (first0 r) eqn:E; simpl in H; inversion H; subst. destruct (IH _ eq_refl). simpl. split; [lia|auto]. Qed.
Lemma zeros1_set w j : j < length w -> nth j w false = false -> zeros1 (upd w j true) + 1 = zeros1 w.
Proof. revert j; induction w as [|b r IH]; destruct j; simpl; intros Hj Hn; try lia.
  - subst; lia. - specialize (IH j ltac:(lia) Hn). destruct b; lia. Qed.
Lemma zeros1_clear w j : j < length w -> nth j w false = true -> zeros1 (upd w j false) = zeros1 w + 1.
Proof. revert j; induction w as [|b r IH]; destruct j; simpl; intros Hj Hn; try lia.
  - subst; lia. - specialize (IH j ltac:(lia) Hn). destruct b; lia. Qed.
Lemma zeros_upd m r w : r < length m -> zeros (upd m r w) + zeros1 (nth r m []) = zeros m + zeros1 w.
Proof. unfold zeros. intros. apply (sumf_upd zeros1 m r w []). assumption. Qed.


(* ------------------------------------------------------------------ *)
(* ghost, as functions of the pc                                        *)
Definition pend (Rn : nat) (p : pc) :=
  match p with S2 _ | S3 => 1 | R2 _ | R3 => B | PS2 b => size b Rn | _ => 0 end.
Definition blk_of (p : pc) : option blk :=
  match p with P1 b | PP b _ | PPU b _ | PP2 b | PP3 b _ | PS1 b | PanicKnown b => Some b | PH => Some Huge | _ => None end.
Definition fr (r j : nat) (p : pc) := match blk_of p with Some b => cover b r j | None => 0 end.
Definition tr (r : nat) (p : pc) :=
  match p with PP _ q | PPU _ q => if r <? q then 1 else 0 | PP2 _ => 1 | _ => 0 end.
Definition trcount (Rn : nat) (p : pc) := match p with PP _ q | PPU _ q => q | PP2 _ => Rn | _ => 0 end.
Definition needsSome (p : pc) := match p with S2 _ | S3 | R2 _ | R3 | PS1 _ | PS2 _ => 1 | _ => 0 end.
Definition isBad (p : pc) := match p with PanicBad => 1 | _ => 0 end.
Definition isPH (p : pc) := match p with PH => 1 | _ => 0 end.
Definition isHugeB (b : blk) := match b with Huge => 1 | _ => 0 end.
Definition heldc (r j : nat) (h : list blk) := sumf (fun b => cover b r j) h.
Definition isNone (e : option nat) := match e with None => 1 | Some _ => 0 end.
Definition wf_blk (Rn : nat) (b : blk) :=
  match b with Small r j => r < Rn /\ j < B | Row r => r < Rn | Huge => True end.
Definition wf_sub (Rn : nat) (b : blk) := wf_blk Rn b /\ b <> Huge.
Definition local_ok (Rn : nat) (p : pc) :=
  match p with
  | P1 b | PP2 b | PP3 b _ | PS1 b | PS2 b | PanicKnown b => wf_sub Rn b
  | PP b q | PPU b q => q < Rn /\ wf_sub Rn b
  | _ => True
  end.
Definition bit (s : st) (r j : nat) := nth j (row_at s r) false.

Record Inv (s : st) : Prop := {
  I_wf : Forall (fun w => length w = B) (rows s);
  I_R : 1 <= R s;
  I_A : forall r j, r < R s -> j < B ->
        b2n (bit s r j) + isNone (ent s)
        = heldc r j (held s) + sumf (fr r j) (pool s) + sumf (tr r) (pool s);
  I_B : ent s = None -> forall r j, r < R s -> j < B -> heldc r j (held s) + sumf (fr r j) (pool s) = 1;
  I_C : forall c, ent s = Some c -> c + sumf (pend (R s)) (pool s) = zeros (rows s) + B * sumf (trcount (R s)) (pool s);
  I_D : ent s = None -> sumf needsSome (pool s) = 0;
  I_E : sumf isBad (pool s) = 0;
  I_F : forall c, ent s = Some c -> sumf isHugeB (held s) + sumf isPH (pool s) = 0;
  I_L : Forall (local_ok (R s)) (pool s);
  I_H : Forall (wf_blk (R s)) (held s)
}.

Lemma Forall_upd {A} (P : A -> Prop) l t x : Forall P l -> P x -> Forall P (upd l t x).
Proof. intros H; revert t; induction H; destruct t; simpl; intros; constructor; auto. Qed.
Lemma Forall_nth_d {A} (P : A -> Prop) l t d : Forall P l -> t < length l -> P (nth t l d).
Proof. intros H; revert t; induction H; destruct t; simpl; intros; try lia; auto. apply IHForall; lia. Qed.
Lemma nth_oob_bad (l : list pc) t : length l <= t -> nth t l PanicBad = PanicBad.
Proof. intros; now apply nth_overflow. Qed.

(* bit after updating a row *)
Lemma bit_upd_row s r w r' j :
  r < R s -> bit (w_rows s (upd (rows s) r w)) r' j = if r' =? r then nth j w false else bit s r' j.
Proof. intros Hr. unfold bit, row_at; simpl. destruct (Nat.eqb_spec r' r) as [->|Hne].
  - rewrite nth_upd_same by exact Hr. reflexivity.
  - rewrite nth_upd_other by congruence. reflexivity. Qed.

(* ------------------------------------------------------------------ *)
(* global counting consequences                                        *)
Hypothesis Bpos : 1 <= B.

Lemma gsum_ext Rn g h : (forall r j, r < Rn -> j < B -> g r j = h r j) -> gsum Rn g = gsum Rn h.
Proof. intros H. apply ssum_ext. intros r Hr. apply ssum_ext. intros j Hj. auto. Qed.
Lemma gsum_add Rn g h : gsum Rn (fun r j => g r j + h r j) = gsum Rn g + gsum Rn h.
Proof. unfold gsum, ssum. rewrite <- sumf_add. apply sumf_ext_in. intros r _. apply sumf_add. Qed.
Lemma gsum_sumf {A} Rn (f : nat -> nat -> A -> nat) (l : list A) :
  gsum Rn (fun r j => sumf (f r j) l) = sumf (fun p => gsum Rn (fun r j => f r j p)) l.
Proof. unfold gsum, ssum.
  rewrite (sumf_ext_in _ (fun r => sumf (fun p => sumf (fun j => f r j p) (seq 0 B)) l)).
  - apply sumf_swap.
  - intros r _. apply sumf_swap. Qed.
Lemma gsum_zero Rn g : gsum Rn g = 0 -> forall r j, r < Rn -> j < B -> g r j = 0.
Proof. intros H r j Hr Hj. unfold gsum, ssum in H.
  pose proof (sumf_zero _ _ H r ltac:(apply in_seq; lia)) as H1. cbv beta in H1.
  exact (sumf_zero _ _ H1 j ltac:(apply in_seq; lia)). Qed.

Lemma gsum_bits_list (m : list (list bool)) : Forall (fun w => length w = B) m ->
  ssum (length m) (fun r => ssum B (fun j => b2n (nth j (nth r m []) false))) + sumf zeros1 m = length m * B.
Proof.
  intros Hwf.
  pose proof (sumf_nth (fun w => ssum B (fun j => b2n (nth j w false))) m []) as E.
  cbv beta in E. rewrite <- E. clear E.
  induction Hwf as [|w m' Hw Hm IH]; simpl; [reflexivity|].
  rewrite <- Hw at 1. rewrite <- ones1_nth. pose proof (ones_zeros1 w). lia.
Qed.
Lemma gsum_bits s : Forall (fun w => length w = B) (rows s) ->
  gsum (R s) (fun r j => b2n (bit s r j)) + zeros (rows s) = R s * B.
Proof. intros Hwf. exact (gsum_bits_list (rows s) Hwf). Qed.

Definition gfr (Rn : nat) (p : pc) := gsum Rn (fun r j => fr r j p).

Lemma gsum_cover Rn b : wf_blk Rn b -> gsum Rn (cover b) = size b Rn.
Proof.
  destruct b as [r' j'|r'|]; simpl; intros Hwf.
  - destruct Hwf as [Hr Hj]. unfold gsum.
    rewrite (ssum_ext _ _ (fun r => if r =? r' then 1 else 0)).
    + rewrite ssum_indicator. destruct (Nat.ltb_spec r' Rn); lia.
    + intros r _. destruct (Nat.eqb_spec r r') as [->|Hne].
      * rewrite (ssum_ext _ _ (fun j => if j =? j' then 1 else 0)).
        -- rewrite ssum_indicator. destruct (Nat.ltb_spec j' B); lia.
        -- intros j _. simpl. rewrite Nat.eqb_refl. reflexivity.
      * rewrite (ssum_ext _ _ (fun _ => 0)).
        -- rewrite ssum_const. lia.
        -- intros j _. simpl. destruct (Nat.eqb_spec r r'); [congruence|reflexivity].
  - unfold gsum. rewrite (ssum_ext _ _ (fun r => B * (if r =? r' then 1 else 0))).
    + unfold ssum. rewrite sumf_mulc. fold (ssum Rn (fun r => if r =? r' then 1 else 0)).
      rewrite ssum_indicator. destruct (Nat.ltb_spec r' Rn); lia.
    + intros r _. rewrite (ssum_ext _ _ (fun _ => if r =? r' then 1 else 0)) by (intros; reflexivity).
      rewrite ssum_const. destruct (r =? r'); lia.
  - unfold gsum. rewrite (ssum_ext _ _ (fun _ => B)).
    + rewrite ssum_const. reflexivity.
    + intros. rewrite (ssum_ext _ _ (fun _ => 1)) by (intros; reflexivity). rewrite ssum_const. lia.
Qed.

Lemma gfr_blk Rn p : local_ok Rn p ->
  gfr Rn p = match blk_of p with Some b => size b Rn | None => 0 end.
Proof.
  unfold gfr, fr. destruct p; simpl; intros L;
  try (unfold gsum; rewrite (ssum_ext _ _ (fun _ => 0)) by (intros; rewrite ssum_const; lia); rewrite ssum_const; lia);
  try (apply gsum_cover; unfold wf_sub in *; tauto).
  apply (gsum_cover Rn Huge I).
Qed.

Lemma ssum_tr Rn p : local_ok Rn p -> ssum Rn (fun r => tr r p) = trcount Rn p.
Proof.
  destruct p; simpl; intros L; try (rewrite ssum_const; lia);
  try (rewrite ssum_lt; lia).
Qed.

Lemma size_pos Rn b : wf_sub Rn b -> 1 <= size b Rn.
Proof. destruct b; simpl; unfold wf_sub; simpl; intros [H1 H2]; try lia. congruence. Qed.

(* the key global equation: everything is accounted for exactly once *)
Lemma K1 s c : Inv s -> ent s = Some c ->
  c + sumf (pend (R s)) (pool s) + gsum (R s) (fun r j => heldc r j (held s)) + sumf (gfr (R s)) (pool s) = R s * B.
Proof.
  intros [Hwf HR HA HB HC HD HE HF HL HH] He.
  pose proof (gsum_bits s Hwf) as Gb.
  assert (Eq : gsum (R s) (fun r j => b2n (bit s r j))
          = gsum (R s) (fun r j => heldc r j (held s)) + sumf (gfr (R s)) (pool s)
            + B * sumf (trcount (R s)) (pool s)).
  { rewrite (gsum_ext _ _ (fun r j => (heldc r j (held s) + sumf (fr r j) (pool s)) + sumf (tr r) (pool s))).
    2:{ intros r j Hr Hj. specialize (HA r j Hr Hj). rewrite He in HA. simpl in HA. lia. }
    rewrite !gsum_add. rewrite (gsum_sumf (R s) fr). f_equal.
    rewrite (gsum_sumf (R s) (fun r _ p => tr r p)).
    rewrite <- sumf_mulc. apply sumf_ext_in. intros p Hp.
    unfold gsum. rewrite (ssum_ext _ _ (fun r => B * tr r p)) by (intros; rewrite ssum_const; lia).
    unfold ssum at 1. rewrite sumf_mulc. fold (ssum (R s) (fun r => tr r p)).
    rewrite ssum_tr; [reflexivity|]. eapply Forall_forall in HL; eauto. }
  specialize (HC c He). lia.
Qed.

(* a thread that holds nothing pending and frees nothing has no transit and does not need a counter *)
Lemma quiet_thread Rn p : local_ok Rn p -> pend Rn p + gfr Rn p = 0 ->
  trcount Rn p = 0 /\ needsSome p = 0 /\ (forall r, tr r p = 0).
Proof.
  intros L. rewrite (gfr_blk _ _ L).
  destruct p; simpl in *; intros H;
  try (repeat split; auto; lia);
  try (pose proof (size_pos _ _ L); lia);
  try (destruct L as [? L]; pose proof (size_pos _ _ L); lia).
Qed.


(* ------------------------------------------------------------------ *)
(* preservation                                                         *)

Definition mk e m pl h : st := {| ent := e; rows := m; pool := pl; held := h |}.
Definition bit' (m : list (list bool)) r j := nth j (nth r m []) false.

(* The generic step lemma: thread t moves p0 -> p', memory/ghost become (e', m', h').
   All obligations are stated as deltas against the old state. *)
Lemma inv_step s t p0 p' e' m' h' :
  Inv s -> t < length (pool s) -> nth t (pool s) PanicBad = p0 ->
  length m' = length (rows s) -> Forall (fun w => length w = B) m' ->
  (forall r j, r < R s -> j < B ->
     b2n (bit' m' r j) + isNone e' + heldc r j (held s) + fr r j p0 + tr r p0
     = b2n (bit s r j) + isNone (ent s) + heldc r j h' + fr r j p' + tr r p') ->
  (e' = None -> forall r j, r < R s -> j < B ->
     heldc r j h' + sumf (fr r j) (pool s) + fr r j p' = 1 + fr r j p0) ->
  (forall c', e' = Some c' ->
     c' + sumf (pend (R s)) (pool s) + pend (R s) p' + B * trcount (R s) p0
     = zeros m' + B * (sumf (trcount (R s)) (pool s) + trcount (R s) p') + pend (R s) p0) ->
  (e' = None -> sumf needsSome (pool s) + needsSome p' = needsSome p0) ->
  (forall c', e' = Some c' -> sumf isHugeB h' + sumf isPH (pool s) + isPH p' = isPH p0) ->
  isBad p' = 0 -> local_ok (R s) p' -> Forall (wf_blk (R s)) h' ->
  Inv (mk e' m' (upd (pool s) t p') h').
Proof.
  intros [Hwf HR HA HB HC HD HE HF HL HH] Ht E Hlen Hwf' HA' HB' HC' HD' HF' HE' HL' HH'.
  pose proof (fun f p' => sumf_upd f (pool s) t p' PanicBad Ht) as U. rewrite E in U.
  pose proof (fun f => sumf_ge f (pool s) t PanicBad Ht) as G. rewrite E in G.
  constructor; unfold R, T, mk in *; simpl; rewrite ?Hlen.
  - exact Hwf'.
  - exact HR.
  - intros r j Hr Hj. rewrite ?Hlen in Hr. specialize (HA r j Hr Hj). specialize (HA' r j Hr Hj).
    pose proof (U (fr r j) p'). pose proof (U (tr r) p'). unfold bit, bit', row_at in *. simpl in *. lia.
  - intros He r j Hr Hj. rewrite ?Hlen in Hr. specialize (HB' He r j Hr Hj). pose proof (U (fr r j) p'). lia.
  - intros c He. specialize (HC' c He).
    pose proof (U (pend (length (rows s))) p'). pose proof (U (trcount (length (rows s))) p'). nia.
  - intros He. specialize (HD' He). pose proof (U needsSome p'). lia.
  - pose proof (U isBad p'). pose proof (G isBad). lia.
  - intros c He. specialize (HF' c He). pose proof (U isPH p'). lia.
  - apply Forall_upd; assumption.
  - exact HH'.
Qed.

(* under the marker: nothing is pending, and zero bits + transit bits make up everything *)
Lemma K2 s : Inv s -> ent s = None ->
  sumf (pend (R s)) (pool s) = 0 /\ zeros (rows s) + B * sumf (trcount (R s)) (pool s) = R s * B.
Proof.
  intros [Hwf HR HA HB HC HD HE HF HL HH] He. split.
  - specialize (HD He). 
    assert (Hz : forall p, In p (pool s) -> pend (R s) p = 0).
    { intros p Hp. pose proof (sumf_zero _ _ HD p Hp) as Hn. destruct p; simpl in *; try lia; discriminate. }
    rewrite (sumf_ext_in _ (fun _ => 0) _ Hz). clear. induction (pool s); simpl; auto.
  - pose proof (gsum_bits s Hwf) as Gb.
    assert (Eq : gsum (R s) (fun r j => b2n (bit s r j)) = B * sumf (trcount (R s)) (pool s)).
    { rewrite (gsum_ext _ _ (fun r j => sumf (tr r) (pool s))).
      2:{ intros r j Hr Hj. specialize (HA r j Hr Hj). specialize (HB He r j Hr Hj). rewrite He in HA. simpl in HA. lia. }
      rewrite (gsum_sumf (R s) (fun r _ p => tr r p)).
      rewrite <- sumf_mulc. apply sumf_ext_in. intros p Hp.
      unfold gsum. rewrite (ssum_ext _ _ (fun r => B * tr r p)) by (intros; rewrite ssum_const; lia).
      unfold ssum at 1. rewrite sumf_mulc. fold (ssum (R s) (fun r => tr r p)).
      rewrite ssum_tr; [reflexivity|]. eapply Forall_forall in HL; eauto. }
    lia.
Qed.


(* ---- more helpers ---- *)
Lemma heldc_remove r j h k b : nth_error h k = Some b ->
  heldc r j h = heldc r j (remove_nth k h) + cover b r j.
Proof. unfold heldc. revert k; induction h as [|a h IH]; destruct k; simpl; intros H; try discriminate.
  - inversion H; subst; lia. - rewrite (IH k H). lia. Qed.
Lemma hugec_remove h k b : nth_error h k = Some b ->
  sumf isHugeB h = sumf isHugeB (remove_nth k h) + isHugeB b.
Proof. revert k; induction h as [|a h IH]; destruct k; simpl; intros H; try discriminate.
  - inversion H; subst; lia. - rewrite (IH k H). lia. Qed.
Lemma Forall_remove {A} (P : A -> Prop) h k : Forall P h -> Forall P (remove_nth k h).
Proof. intros H; revert k; induction H; destruct k; simpl; auto. Qed.
Lemma nth_error_Forall {A} (P : A -> Prop) h k b : Forall P h -> nth_error h k = Some b -> P b.
Proof. intros H; revert k; induction H; destruct k; simpl; intros E; try discriminate; [inversion E; subst; auto|eauto]. Qed.
Lemma heldc_app r j h1 h2 : heldc r j (h1 ++ h2) = heldc r j h1 + heldc r j h2.
Proof. apply sumf_app. Qed.
Lemma heldc_split Rn b r j : wf_blk Rn b -> r < Rn -> j < B -> heldc r j (split_blk b Rn) = cover b r j.
Proof.
  unfold heldc. destruct b as [r' j'|r'|]; simpl; intros Hwf Hr Hj.
  - lia.
  - rewrite sumf_map. simpl. fold (ssum B (fun x => if (r =? r') && (j =? x) then 1 else 0)).
    destruct (Nat.eqb_spec r r'); simpl.
    + rewrite (ssum_ext _ _ (fun x => if x =? j then 1 else 0)).
      * rewrite ssum_indicator. destruct (Nat.ltb_spec j B); lia.
      * intros x _. rewrite Nat.eqb_sym. reflexivity.
    + rewrite ssum_const. lia.
  - rewrite sumf_map. simpl. fold (ssum Rn (fun x => if r =? x then 1 else 0)).
    rewrite (ssum_ext _ _ (fun x => if x =? r then 1 else 0)).
    + rewrite ssum_indicator. destruct (Nat.ltb_spec r Rn); lia.
    + intros x _. rewrite Nat.eqb_sym. reflexivity.
Qed.
Lemma hugec_split Rn b : sumf isHugeB (split_blk b Rn) <= isHugeB b.
Proof. destruct b; simpl; try lia; rewrite sumf_map; simpl.
  - induction (seq 0 B); simpl; lia. - induction (seq 0 Rn); simpl; lia. Qed.
Lemma wf_split Rn b : wf_blk Rn b -> Forall (wf_blk Rn) (split_blk b Rn).
Proof. destruct b as [r' j'|r'|]; simpl; intros H.
  - constructor; auto.
  - apply Forall_forall. intros x Hx. apply in_map_iff in Hx. destruct Hx as (j & <- & Hj). apply in_seq in Hj. simpl. lia.
  - apply Forall_forall. intros x Hx. apply in_map_iff in Hx. destruct Hx as (j & <- & Hj). apply in_seq in Hj. simpl. lia.
Qed.
Lemma heldc_ge_huge r j h : sumf isHugeB h <= heldc r j h.
Proof. unfold heldc. apply sumf_le_in. intros b _. destruct b; simpl; lia. Qed.
Lemma fr_ge_PH r j l : sumf isPH l <= sumf (fr r j) l.
Proof. apply sumf_le_in. intros p _. unfold fr. destruct p; simpl; lia. Qed.
Lemma rones_intro w : (forall j, j < length w -> nth j w false = true) -> rones w = true.
Proof. unfold rones. induction w as [|b w IH]; simpl; intros H; [reflexivity|].
  pose proof (H 0 ltac:(lia)) as H0. simpl in H0. subst b. simpl. apply IH. intros j Hj. apply (H (S j)). lia. Qed.
Lemma cover_in_range Rn b : wf_sub Rn b -> exists r j, r < Rn /\ j < B /\ cover b r j = 1.
Proof. destruct b as [r j|r|]; unfold wf_sub; simpl; intros [H1 H2].
  - exists r, j. rewrite !Nat.eqb_refl. simpl. lia.
  - exists r, 0. rewrite Nat.eqb_refl. lia.
  - congruence. Qed.
Lemma bit'_upd m r w r' j : r < length m ->
  bit' (upd m r w) r' j = if r' =? r then nth j w false else bit' m r' j.
Proof. intros Hr. unfold bit'. destruct (Nat.eqb_spec r' r) as [->|Hne].
  - rewrite nth_upd_same by exact Hr. reflexivity.
  - rewrite nth_upd_other by congruence. reflexivity. Qed.
Lemma nth_row_len s r : Inv s -> r < R s -> length (row_at s r) = B.
Proof. intros I Hr. pose proof (I_wf s I) as Hwf. unfold row_at.
  eapply (Forall_nth_d (fun w => length w = B)); eauto. Qed.
Lemma wf_upd_row s r w : Inv s -> length w = B -> Forall (fun w => length w = B) (upd (rows s) r w).
Proof. intros I Hw. apply Forall_upd; [apply I|exact Hw]. Qed.

(* changing only the ghost held list, pointwise-equal coverage *)
Lemma inv_held s h' : Inv s ->
  (forall r j, r < R s -> j < B -> heldc r j h' = heldc r j (held s)) ->
  sumf isHugeB h' <= sumf isHugeB (held s) -> Forall (wf_blk (R s)) h' ->
  Inv (w_held s h').
Proof.
  intros [Hwf HR HA HB HC HD HE HF HL HH] Hc Hh Hw.
  constructor; unfold R, w_held, bit, row_at in *; simpl; auto.
  - intros r j Hr Hj. rewrite Hc by assumption. auto.
  - intros He r j Hr Hj. rewrite Hc by assumption. auto.
  - intros c He. specialize (HF c He). lia.
Qed.

Ltac to_mk s t e' m' h' p' := change (Inv (mk e' m' (upd (pool s) t p') h')).

(* only the pc changes, and the new pc has the same ghost contributions *)
Ltac plain s t I Ht E G p' :=
  to_mk s t (ent s) (rows s) (held s) p';
  apply (inv_step s t _ p' (ent s) (rows s) (held s) I Ht E);
  [ reflexivity
  | apply I
  | let r := fresh "r" in let j := fresh "j" in intros r j ? ?; unfold bit, bit', row_at, fr, tr; simpl; try lia
  | let He := fresh "He" in let r := fresh "r" in let j := fresh "j" in
    intros He r j ? ?; try congruence; pose proof (I_B s I He r j ltac:(assumption) ltac:(assumption)); unfold fr in *; simpl in *; try lia
  | let c := fresh "c" in let He := fresh "He" in intros c He; try congruence; pose proof (I_C s I c He); simpl; try nia
  | let He := fresh "He" in intros He; try congruence; pose proof (I_D s I He); pose proof (G needsSome); simpl in *; try lia
  | let c := fresh "c" in let He := fresh "He" in intros c He; try congruence; pose proof (I_F s I c He); pose proof (G isPH); simpl in *; try lia
  | reflexivity
  | simpl; auto
  | apply I ].

Lemma fr_PH_others s t r j p0 : t < length (pool s) -> nth t (pool s) PanicBad = p0 -> isPH p0 = 0 ->
  fr r j p0 + sumf isPH (pool s) <= sumf (fr r j) (pool s).
Proof.
  intros Ht E Hph.
  pose proof (sumf_upd (fr r j) (pool s) t Idle PanicBad Ht) as U1.
  pose proof (sumf_upd isPH (pool s) t Idle PanicBad Ht) as U2.
  pose proof (fr_ge_PH r j (upd (pool s) t Idle)) as Hle.
  rewrite E in *. assert (F0 : fr r j Idle = 0) by reflexivity. assert (P0 : isPH Idle = 0) by reflexivity. lia.
Qed.
Lemma b2n_le1 b : b2n b <= 1. Proof. destruct b; simpl; lia. Qed.
Lemma b2n_true b : 1 <= b2n b -> b = true. Proof. destruct b; simpl; auto; lia. Qed.

Ltac need_some s I G He :=
  destruct (ent s) as [?c|] eqn:He;
  [| exfalso; pose proof (I_D s I He); pose proof (G needsSome); simpl in *; lia].

Lemma inc_inv s t p0 n : Inv s -> t < length (pool s) -> nth t (pool s) PanicBad = p0 ->
  pend (R s) p0 = n -> needsSome p0 = 1 -> (forall r j, fr r j p0 = 0) -> (forall r, tr r p0 = 0) ->
  trcount (R s) p0 = 0 -> isPH p0 = 0 -> Inv (inc s t n).
Proof.
  intros I Ht E Hp Hn Hfr Htr Htc Hph.
  pose proof (fun f => sumf_ge f (pool s) t PanicBad Ht) as G. rewrite E in G.
  unfold inc. need_some s I G He.
  pose proof (K1 s c I He) as K. pose proof (G (pend (R s))) as Gp. rewrite Hp in Gp.
  destruct (Nat.leb_spec (c + n) (T s)) as [Hle|Hgt]; [|unfold T in *; lia].
  to_mk s t (Some (c + n)) (rows s) (held s) Idle.
  apply (inv_step s t _ Idle (Some (c + n)) (rows s) (held s) I Ht E);
    [reflexivity | apply I | | discriminate | | discriminate | | reflexivity | exact Logic.I | apply I].
  - intros r j Hr Hj. rewrite He, Hfr, Htr. unfold fr, tr; simpl. reflexivity.
  - intros c' Hc'. inversion Hc'; subst c'. pose proof (I_C s I c He). rewrite Hp, Htc. simpl. lia.
  - intros c' _. pose proof (I_F s I c He). rewrite Hph. simpl. lia.
Qed.

Lemma step_inv s t ch : Inv s -> Inv (step s t ch).
Proof.
  intros I.
  destruct (Nat.lt_ge_cases t (length (pool s))) as [Ht|Ht].
  2:{ unfold step. rewrite nth_oob_bad by assumption. exact I. }
  pose proof (fun f => sumf_ge f (pool s) t PanicBad Ht) as G.
  pose proof (Forall_nth_d _ _ t PanicBad (I_L s I) Ht) as L.
  unfold step; cbv zeta.
  destruct (nth t (pool s) PanicBad) eqn:E; simpl in L.
  - (* Idle *)
    destruct ch as [| | |k|k].
    + plain s t I Ht E G S1.
    + plain s t I Ht E G R1.
    + plain s t I Ht E G H1.
    + (* put *)
      destruct (nth_error (held s) k) as [b|] eqn:Hk; [|exact I].
      pose proof (nth_error_Forall _ _ _ _ (I_H s I) Hk) as Hwb.
      assert (Hgen : forall p', blk_of p' = Some b -> isPH p' = isHugeB b -> pend (R s) p' = 0 -> trcount (R s) p' = 0 ->
                (forall r, tr r p' = 0) -> needsSome p' = 0 -> isBad p' = 0 -> local_ok (R s) p' ->
                Inv (setp (w_held s (remove_nth k (held s))) t p')).
      { intros p' Hb Hph Hp Htc Htr Hn Hbad Hl.
        to_mk s t (ent s) (rows s) (remove_nth k (held s)) p'.
        apply (inv_step s t _ p' (ent s) (rows s) (remove_nth k (held s)) I Ht E);
          [reflexivity | apply I | | | | | | exact Hbad | exact Hl | apply Forall_remove; apply I].
        - intros r j Hr Hj. rewrite (heldc_remove r j _ _ _ Hk). unfold fr. rewrite Hb, Htr. simpl. unfold bit, bit', row_at. lia.
        - intros He r j Hr Hj. pose proof (I_B s I He r j Hr Hj) as HB. rewrite (heldc_remove r j _ _ _ Hk) in HB.
          unfold fr at 2 3. rewrite Hb. simpl. lia.
        - intros c' Hc'. pose proof (I_C s I c' Hc'). rewrite Hp, Htc. simpl. lia.
        - intros He. pose proof (I_D s I He). rewrite Hn. simpl. lia.
        - intros c' Hc'. pose proof (I_F s I c' Hc') as HF. rewrite (hugec_remove _ _ _ Hk) in HF. rewrite Hph. simpl. lia. }
      destruct b as [r j|r|].
      * apply Hgen; try reflexivity; try (simpl; split; [exact Hwb|discriminate]).
      * apply Hgen; try reflexivity; try (simpl; split; [exact Hwb|discriminate]).
      * apply Hgen; try reflexivity; try exact Logic.I.
    + (* ghost split *)
      destruct (nth_error (held s) k) as [b|] eqn:Hk; [|exact I].
      pose proof (nth_error_Forall _ _ _ _ (I_H s I) Hk) as Hwb.
      apply inv_held; [exact I| | |].
      * intros r j Hr Hj. rewrite heldc_app, (heldc_split _ _ _ _ Hwb Hr Hj), (heldc_remove r j _ _ _ Hk). lia.
      * rewrite sumf_app, (hugec_remove _ _ _ Hk). pose proof (hugec_split (R s) b). lia.
      * apply Forall_app. split; [apply wf_split; exact Hwb | apply Forall_remove; apply I].
  - (* S1 *)
    destruct (ent s) as [c|] eqn:He.
    + destruct (Nat.leb_spec 1 c).
      * to_mk s t (Some (c - 1)) (rows s) (held s) (S2 0).
        apply (inv_step s t _ (S2 0) (Some (c - 1)) (rows s) (held s) I Ht E);
          [reflexivity | apply I | | discriminate | | discriminate | | reflexivity | exact Logic.I | apply I].
        -- intros r j Hr Hj. rewrite He. unfold fr, tr; simpl. reflexivity.
        -- intros c' Hc'. inversion Hc'; subst c'. pose proof (I_C s I c He). simpl. lia.
        -- intros c' _. pose proof (I_F s I c He). pose proof (G isPH). simpl in *. lia.
      * plain s t I Ht E G Idle.
    + plain s t I Ht E G Idle.
  - (* S2 *)
    destruct (Nat.leb_spec (R s) r) as [Hr|Hr].
    + plain s t I Ht E G S3.
    + destruct (first0 (row_at s r)) as [j|] eqn:F0.
      * need_some s I G He.
        apply first0_spec in F0. destruct F0 as [Hj Hz]. rewrite (nth_row_len s r I Hr) in Hj.
        to_mk s t (ent s) (upd (rows s) r (upd (row_at s r) j true)) (Small r j :: held s) Idle.
        apply (inv_step s t _ Idle (ent s) (upd (rows s) r (upd (row_at s r) j true)) (Small r j :: held s) I Ht E);
          [apply upd_length | apply wf_upd_row; [exact I | rewrite upd_length; apply nth_row_len; assumption]
          | | intros Hn; congruence | | intros Hn; congruence | | reflexivity | exact Logic.I | ].
        -- intros r' j' Hr' Hj'. rewrite bit'_upd by exact Hr. unfold bit, fr, tr, heldc; simpl.
           fold (heldc r' j' (held s)).
           destruct (Nat.eqb_spec r' r) as [->|Hne]; simpl; [|unfold bit', row_at; lia].
           destruct (Nat.eqb_spec j' j) as [->|Hnj]; simpl.
           ++ rewrite nth_upd_same by (rewrite (nth_row_len s r I Hr); exact Hj). rewrite Hz. simpl. lia.
           ++ rewrite nth_upd_other by congruence. lia.
        -- intros c' Hc'. pose proof (I_C s I c' Hc') as HC. simpl.
           pose proof (zeros_upd (rows s) r (upd (row_at s r) j true) Hr) as Z.
           pose proof (zeros1_set (row_at s r) j ltac:(rewrite (nth_row_len s r I Hr); exact Hj) Hz) as Z1.
           unfold row_at in *. lia.
        -- intros c' Hc'. pose proof (I_F s I c' Hc'). pose proof (G isPH). simpl in *. lia.
        -- constructor; [simpl; unfold R in *; lia | apply I].
      * plain s t I Ht E G (S2 (S r)).
  - (* S3 *) apply (inc_inv s t S3 1 I Ht E); auto.
  - (* R1 *)
    destruct (ent s) as [c|] eqn:He.
    + destruct (Nat.leb_spec B c).
      * to_mk s t (Some (c - B)) (rows s) (held s) (R2 0).
        apply (inv_step s t _ (R2 0) (Some (c - B)) (rows s) (held s) I Ht E);
          [reflexivity | apply I | | discriminate | | discriminate | | reflexivity | exact Logic.I | apply I].
        -- intros r j Hr Hj. rewrite He. unfold fr, tr; simpl. reflexivity.
        -- intros c' Hc'. inversion Hc'; subst c'. pose proof (I_C s I c He). simpl. lia.
        -- intros c' _. pose proof (I_F s I c He). pose proof (G isPH). simpl in *. lia.
      * plain s t I Ht E G Idle.
    + plain s t I Ht E G Idle.
  - (* R2 *)
    destruct (Nat.leb_spec (R s) r) as [Hr|Hr].
    + plain s t I Ht E G R3.
    + destruct (rzero (row_at s r)) eqn:Z0.
      * need_some s I G He.
        pose proof (nth_row_len s r I Hr) as Hlen.
        to_mk s t (ent s) (upd (rows s) r (repeat true B)) (Row r :: held s) Idle.
        apply (inv_step s t _ Idle (ent s) (upd (rows s) r (repeat true B)) (Row r :: held s) I Ht E);
          [apply upd_length | apply wf_upd_row; [exact I | apply repeat_length]
          | | intros Hn; congruence | | intros Hn; congruence | | reflexivity | exact Logic.I | ].
        -- intros r' j' Hr' Hj'. rewrite bit'_upd by exact Hr. unfold bit, fr, tr, heldc; simpl.
           fold (heldc r' j' (held s)).
           destruct (Nat.eqb_spec r' r) as [->|Hne]; simpl; [|unfold bit', row_at; lia].
           rewrite nth_repeat by exact Hj'. rewrite (rzero_spec _ Z0). simpl. lia.
        -- intros c' Hc'. pose proof (I_C s I c' Hc') as HC. simpl.
           pose proof (zeros_upd (rows s) r (repeat true B) Hr) as Z.
           pose proof (rzero_zeros _ Z0) as Z1. rewrite zeros1_repeat_true in Z.
           unfold row_at in *. lia.
        -- intros c' Hc'. pose proof (I_F s I c' Hc'). pose proof (G isPH). simpl in *. lia.
        -- constructor; [simpl; unfold R in *; lia | apply I].
      * plain s t I Ht E G (R2 (S r)).
  - (* R3 *) apply (inc_inv s t R3 B I Ht E); auto.
  - (* H1 : installing the marker *)
    destruct (ent s) as [c|] eqn:He; [|plain s t I Ht E G Idle].
    destruct (Nat.eqb_spec c (T s)) as [->|Hne]; [|plain s t I Ht E G Idle].
    pose proof (K1 s _ I He) as K. unfold T in K.
    assert (Kp : sumf (pend (R s)) (pool s) = 0) by lia.
    assert (Kh : gsum (R s) (fun r j => heldc r j (held s)) = 0) by lia.
    assert (Kf : sumf (gfr (R s)) (pool s) = 0) by lia.
    to_mk s t (@None nat) (rows s) (Huge :: held s) Idle.
    apply (inv_step s t _ Idle None (rows s) (Huge :: held s) I Ht E);
      [reflexivity | apply I | | | discriminate | | discriminate | reflexivity | exact Logic.I | constructor; [exact Logic.I|apply I]].
    + intros r j Hr Hj. rewrite He. unfold fr, tr, heldc, bit, bit', row_at; simpl. lia.
    + intros _ r j Hr Hj. unfold heldc; simpl. fold (heldc r j (held s)).
      pose proof (gsum_zero _ _ Kh r j Hr Hj) as H0. cbv beta in H0.
      assert (Hs : gsum (R s) (fun r j => sumf (fr r j) (pool s)) = 0).
      { rewrite (gsum_sumf (R s) fr). exact Kf. }
      pose proof (gsum_zero _ _ Hs r j Hr Hj) as H1'. cbv beta in H1'. unfold fr at 2 3; simpl. lia.
    + intros _. simpl.
      assert (Hz : forall p, In p (pool s) -> needsSome p = 0).
      { intros p Hp. apply (quiet_thread (R s) p).
        - eapply Forall_forall in Hp; [exact Hp|apply I].
        - pose proof (sumf_zero _ _ Kp p Hp). pose proof (sumf_zero _ _ Kf p Hp). lia. }
      rewrite (sumf_ext_in _ (fun _ => 0) _ Hz). clear. induction (pool s); simpl; auto.
  - (* P1 *)
    destruct (ent s) as [c|] eqn:He.
    + destruct (Nat.leb_spec (c + size b (R s)) (T s)) as [Hle|Hgt].
      * plain s t I Ht E G (PS1 b).
      * exfalso. pose proof (K1 s c I He) as K. pose proof (G (gfr (R s))) as Gg.
        rewrite (gfr_blk _ _ (L : local_ok (R s) (P1 b))) in Gg. simpl in Gg. unfold T in *. lia.
    + plain s t I Ht E G (PP b 0).
      split; [pose proof (I_R s I); lia | exact L].
  - (* PP *)
    destruct L as [Hq Lb].
    destruct (rzero (row_at s q)) eqn:Z0.
    + pose proof (nth_row_len s q I Hq) as Hlen.
      set (p' := if S q =? R s then PP2 b else PP b (S q)).
      to_mk s t (ent s) (upd (rows s) q (repeat true B)) (held s) p'.
      apply (inv_step s t _ p' (ent s) (upd (rows s) q (repeat true B)) (held s) I Ht E);
        [apply upd_length | apply wf_upd_row; [exact I | apply repeat_length] | | | | | | | | apply I].
      * intros r' j' Hr' Hj'. rewrite bit'_upd by exact Hq. unfold bit, fr; simpl.
        assert (Htr : tr r' p' = if r' <? S q then 1 else 0).
        { unfold p'. destruct (Nat.eqb_spec (S q) (R s)) as [Heq|Hne]; simpl; [|reflexivity].
          destruct (Nat.ltb_spec r' (S q)); lia. }
        rewrite Htr. assert (Hb : fr r' j' p' = cover b r' j') by (unfold p', fr; destruct (S q =? R s); reflexivity).
        unfold fr in Hb. rewrite Hb. simpl.
        destruct (Nat.eqb_spec r' q) as [->|Hne].
        -- rewrite nth_repeat by exact Hj'. rewrite (rzero_spec _ Z0). simpl.
           destruct (Nat.ltb_spec q q), (Nat.ltb_spec q (S q)); lia.
        -- unfold bit', row_at. destruct (Nat.ltb_spec r' q), (Nat.ltb_spec r' (S q)); lia.
      * intros He r' j' Hr' Hj'. pose proof (I_B s I He r' j' Hr' Hj').
        assert (Hb : fr r' j' p' = cover b r' j') by (unfold p', fr; destruct (S q =? R s); reflexivity).
        rewrite Hb. change (fr r' j' (PP b q)) with (cover b r' j'). lia.
      * intros c' Hc'. pose proof (I_C s I c' Hc') as HC.
        pose proof (zeros_upd (rows s) q (repeat true B) Hq) as Z. rewrite zeros1_repeat_true in Z.
        pose proof (rzero_zeros _ Z0) as Z1. unfold row_at in *.
        assert (Hp : pend (R s) p' = 0) by (unfold p'; destruct (S q =? R s); reflexivity).
        assert (Ht' : trcount (R s) p' = S q).
        { unfold p'. destruct (Nat.eqb_spec (S q) (R s)); simpl; lia. }
        rewrite Hp, Ht'. simpl. nia.
      * intros He. pose proof (I_D s I He).
        assert (Hn : needsSome p' = 0) by (unfold p'; destruct (S q =? R s); reflexivity). rewrite Hn. simpl. lia.
      * intros c' Hc'. pose proof (I_F s I c' Hc').
        assert (Hn : isPH p' = 0) by (unfold p'; destruct (S q =? R s); reflexivity). rewrite Hn. simpl. lia.
      * unfold p'; destruct (S q =? R s); reflexivity.
      * unfold p'. destruct (Nat.eqb_spec (S q) (R s)); simpl; [exact Lb|split; [lia|exact Lb]].
    + plain s t I Ht E G (PPU b q).
  - (* PPU *)
    destruct L as [Hq Lb].
    destruct q as [|q'].
    + plain s t I Ht E G (PP3 b 0).
    + assert (Hq' : q' < R s) by lia.
      pose proof (nth_row_len s q' I Hq') as Hlen.
      assert (Hones : rones (row_at s q') = true).
      { apply rones_intro. intros j Hj. rewrite Hlen in Hj. apply b2n_true.
        pose proof (I_A s I q' j Hq' Hj) as HA. pose proof (G (tr q')) as Gt. simpl in Gt.
        destruct (Nat.ltb_spec q' (S q')); [|lia]. unfold bit in HA.
        destruct (ent s) eqn:He; simpl in HA; [lia|].
        pose proof (I_B s I He q' j Hq' Hj). lia. }
      rewrite Hones.
      to_mk s t (ent s) (upd (rows s) q' (repeat false B)) (held s) (PPU b q').
      apply (inv_step s t _ (PPU b q') (ent s) (upd (rows s) q' (repeat false B)) (held s) I Ht E);
        [apply upd_length | apply wf_upd_row; [exact I | apply repeat_length] | | | | | | reflexivity | simpl; split; [lia|exact Lb] | apply I].
      * intros r' j' Hr' Hj'. rewrite bit'_upd by exact Hq'. unfold bit, fr; simpl.
        destruct (Nat.eqb_spec r' q') as [->|Hne].
        -- rewrite nth_repeat by exact Hj'. rewrite (rones_spec _ Hones) by (rewrite Hlen; exact Hj'). simpl.
           destruct (Nat.ltb_spec q' q'), (Nat.ltb_spec q' (S q')); lia.
        -- unfold bit', row_at. destruct (Nat.ltb_spec r' q'), (Nat.ltb_spec r' (S q')); lia.
      * intros He r' j' Hr' Hj'. pose proof (I_B s I He r' j' Hr' Hj'). change (fr r' j' (PPU b q')) with (cover b r' j'). change (fr r' j' (PPU b (S q'))) with (cover b r' j'). lia.
      * intros c' Hc'. pose proof (I_C s I c' Hc') as HC.
        pose proof (zeros_upd (rows s) q' (repeat false B) Hq') as Z. rewrite zeros1_repeat_false in Z.
        pose proof (rones_zeros _ Hones) as Z1. unfold row_at in *. simpl. nia.
      * intros He. pose proof (I_D s I He). simpl. lia.
      * intros c' Hc'. pose proof (I_F s I c' Hc'). simpl. lia.
  - (* PP2 *)
    destruct (cover_in_range _ _ L) as (r0 & j0 & Hr0 & Hj0 & Hc0).
    pose proof (G (fr r0 j0)) as Gf. unfold fr in Gf at 1. simpl in Gf. rewrite Hc0 in Gf.
    destruct (ent s) as [c|] eqn:He.
    + exfalso. pose proof (I_A s I r0 j0 Hr0 Hj0) as HA. rewrite He in HA. simpl in HA.
      pose proof (G (tr r0)) as Gt. simpl in Gt. pose proof (b2n_le1 (bit s r0 j0)). lia.
    + pose proof (K2 s I He) as [Kp Kz].
      to_mk s t (Some 0) (rows s) (held s) (PS1 b).
      apply (inv_step s t _ (PS1 b) (Some 0) (rows s) (held s) I Ht E);
        [reflexivity | apply I | | discriminate | | discriminate | | reflexivity | exact L | apply I].
      * intros r j Hr Hj. rewrite He. unfold fr, tr, bit, bit', row_at; simpl. lia.
      * intros c' Hc'. inversion Hc'; subst c'. simpl. lia.
      * intros c' _. simpl.
        pose proof (I_B s I He r0 j0 Hr0 Hj0) as HB.
        pose proof (heldc_ge_huge r0 j0 (held s)).
        pose proof (fr_PH_others s t r0 j0 _ Ht E eq_refl) as Hf. unfold fr in Hf at 1. simpl in Hf. rewrite Hc0 in Hf.
        lia.
  - (* PP3 *)
    destruct (ent s) as [c|] eqn:He.
    + plain s t I Ht E G (PS1 b).
    + destruct (RETRIES <=? S n).
      * plain s t I Ht E G (PanicKnown b).
      * plain s t I Ht E G (PP3 b (S n)).
  - (* PS1 *)
    need_some s I G He.
    destruct b as [r j|r|]; [| |exfalso; destruct L as [_ Hn]; congruence].
    + destruct L as [[Hr Hj] _].
      pose proof (nth_row_len s r I Hr) as Hlen.
      assert (Hbit : nth j (row_at s r) false = true).
      { apply b2n_true. pose proof (I_A s I r j Hr Hj) as HA. rewrite He in HA. simpl in HA.
        pose proof (G (fr r j)) as Gf. unfold fr in Gf at 1. simpl in Gf. rewrite !Nat.eqb_refl in Gf. simpl in Gf.
        unfold bit in HA. lia. }
      rewrite Hbit.
      to_mk s t (ent s) (upd (rows s) r (upd (row_at s r) j false)) (held s) (PS2 (Small r j)).
      apply (inv_step s t _ (PS2 (Small r j)) (ent s) (upd (rows s) r (upd (row_at s r) j false)) (held s) I Ht E);
        [apply upd_length | apply wf_upd_row; [exact I | rewrite upd_length; exact Hlen]
        | | intros Hn; congruence | | intros Hn; congruence | | reflexivity | simpl; unfold wf_sub; simpl; split; [lia|discriminate] | apply I].
      * intros r' j' Hr' Hj'. rewrite bit'_upd by exact Hr. unfold bit, fr, tr; simpl.
        destruct (Nat.eqb_spec r' r) as [->|Hne]; simpl; [|unfold bit', row_at; lia].
        destruct (Nat.eqb_spec j' j) as [->|Hnj]; simpl.
        -- rewrite nth_upd_same by (rewrite Hlen; exact Hj). rewrite Hbit. simpl. lia.
        -- rewrite nth_upd_other by congruence. lia.
      * intros c' Hc'. pose proof (I_C s I c' Hc') as HC. simpl.
        pose proof (zeros_upd (rows s) r (upd (row_at s r) j false) Hr) as Z.
        pose proof (zeros1_clear (row_at s r) j ltac:(rewrite Hlen; exact Hj) Hbit) as Z1.
        unfold row_at in *. lia.
      * intros c' Hc'. pose proof (I_F s I c' Hc'). simpl. lia.
    + destruct L as [Hr _]. simpl in Hr.
      pose proof (nth_row_len s r I Hr) as Hlen.
      assert (Hones : rones (row_at s r) = true).
      { apply rones_intro. intros j Hj. rewrite Hlen in Hj. apply b2n_true.
        pose proof (I_A s I r j Hr Hj) as HA. rewrite He in HA. simpl in HA.
        pose proof (G (fr r j)) as Gf. unfold fr in Gf at 1. simpl in Gf. rewrite Nat.eqb_refl in Gf.
        unfold bit in HA. lia. }
      rewrite Hones.
      to_mk s t (ent s) (upd (rows s) r (repeat false B)) (held s) (PS2 (Row r)).
      apply (inv_step s t _ (PS2 (Row r)) (ent s) (upd (rows s) r (repeat false B)) (held s) I Ht E);
        [apply upd_length | apply wf_upd_row; [exact I | apply repeat_length]
        | | intros Hn; congruence | | intros Hn; congruence | | reflexivity | simpl; unfold wf_sub; simpl; split; [lia|discriminate] | apply I].
      * intros r' j' Hr' Hj'. rewrite bit'_upd by exact Hr. unfold bit, fr, tr; simpl.
        destruct (Nat.eqb_spec r' r) as [->|Hne]; simpl; [|unfold bit', row_at; lia].
        rewrite nth_repeat by exact Hj'. rewrite (rones_spec _ Hones) by (rewrite Hlen; exact Hj'). simpl. lia.
      * intros c' Hc'. pose proof (I_C s I c' Hc') as HC. simpl.
        pose proof (zeros_upd (rows s) r (repeat false B) Hr) as Z. rewrite zeros1_repeat_false in Z.
        pose proof (rones_zeros _ Hones) as Z1. unfold row_at in *. lia.
      * intros c' Hc'. pose proof (I_F s I c' Hc'). simpl. lia.
  - (* PS2 *) apply (inc_inv s t (PS2 b) (size b (R s)) I Ht E); auto.
  - (* PH *)
    destruct (ent s) as [c|] eqn:He.
    + exfalso. pose proof (I_F s I c He). pose proof (G isPH). simpl in *. lia.
    + pose proof (K2 s I He) as [Kp Kz].
      to_mk s t (Some (T s)) (rows s) (held s) Idle.
      apply (inv_step s t _ Idle (Some (T s)) (rows s) (held s) I Ht E);
        [reflexivity | apply I | | discriminate | | discriminate | | reflexivity | exact Logic.I | apply I].
      * intros r j Hr Hj. rewrite He. unfold fr, tr, bit, bit', row_at; simpl. lia.
      * intros c' Hc'. inversion Hc'; subst c'. unfold T. simpl. lia.
      * intros c' _. simpl.
        pose proof (I_R s I) as HR.
        pose proof (I_B s I He 0 0 ltac:(lia) ltac:(lia)) as HB.
        pose proof (heldc_ge_huge 0 0 (held s)). pose proof (fr_ge_PH 0 0 (pool s)). pose proof (G isPH) as Gp. simpl in Gp. lia.
  - (* PanicKnown *) exact I.
  - (* PanicBad *) exact I.
Qed.

Lemma run_inv sch : forall s, Inv s -> Inv (run sch s).
Proof. induction sch as [|[t ch] r IH]; simpl; intros s H; [exact H|]. apply IH, step_inv, H. Qed.

Lemma sumf_repeat_zero {A} (f : A -> nat) x n : f x = 0 -> sumf f (repeat x n) = 0.
Proof. intros H; induction n; simpl; lia. Qed.

Lemma boot_inv Rn n : 1 <= Rn -> Inv (boot Rn n).
Proof.
  intros HR.
  assert (Hlen : length (repeat (repeat false B) Rn) = Rn) by apply repeat_length.
  constructor; unfold boot, R, bit, row_at; simpl; rewrite ?Hlen.
  - apply Forall_forall. intros w Hw. apply repeat_spec in Hw. subst. apply repeat_length.
  - exact HR.
  - intros r j Hr Hj. rewrite !sumf_repeat_zero by reflexivity.
    rewrite (nth_repeat (repeat false B) [] Rn r Hr), (nth_repeat false false B j Hj). reflexivity.
  - discriminate.
  - intros c Hc. inversion Hc; subst. rewrite !sumf_repeat_zero by reflexivity.
    unfold zeros. clear. induction Rn; simpl; [lia|]. rewrite zeros1_repeat_false. fold (zeros (repeat (repeat false B) Rn)). 
    unfold zeros in *. lia.
  - discriminate.
  - apply sumf_repeat_zero; reflexivity.
  - intros c _. rewrite sumf_repeat_zero by reflexivity. reflexivity.
  - apply Forall_forall. intros p Hp. apply repeat_spec in Hp. subst. exact Logic.I.
  - constructor.
Qed.

(* C01-shaped: no frame is covered by two held blocks; C03-shaped: the only reachable panic is
   the known one (bounded spin on a concurrent split); every other free of a held block succeeds. *)
Theorem mini2_safe Rn n sch : 1 <= Rn ->
  let s := run sch (boot Rn n) in
  (forall r j, r < R s -> j < B -> heldc r j (held s) <= 1) /\ ~ In PanicBad (pool s).
Proof.
  intros HR s. assert (I : Inv s) by (apply run_inv, boot_inv, HR). split.
  - intros r j Hr Hj. pose proof (I_A s I r j Hr Hj) as HA. pose proof (b2n_le1 (bit s r j)).
    destruct (ent s) eqn:He; simpl in HA; [lia|]. pose proof (I_B s I He r j Hr Hj). lia.
  - intro Hin. pose proof (I_E s I) as HE. pose proof (sumf_zero _ _ HE _ Hin). discriminate.
Qed.
End M2.

(* sanity: run a scenario: huge alloc, two threads free different frames of it, one frozen mid-split *)
Definition demo :=
  run 4 2 [(0,CGetH); (0,CGetH);                 (* thread 0 allocates the huge frame *)
           (0,CSplit 0); (0,CSplit 0);            (* ghost: huge -> rows; row 0 -> smalls *)
           (0,CPut 0); (1,CPut 0);                (* t0 frees (0,0), t1 frees (0,1) *)
           (0,CGetS);                             (* t0: P1 sees marker *)
           (0,CGetS); (0,CGetS); (0,CGetS);       (* t0 fills rows 0,1,2 -> PP2, frozen before clearing marker *)
           (1,CGetS); (1,CGetS); (1,CGetS); (1,CGetS); (1,CGetS)]   (* t1: P1, PP fails, PPU, spins *)
      (boot 4 3 2).
Eval vm_compute in (ent demo, pool demo).
Example known_finding_reachable : In (PanicKnown (Small 0 1)) (pool demo).
Proof. vm_compute. auto. Qed.
Print Assumptions mini2_safe.
