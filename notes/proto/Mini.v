(* Throw-away prototype: miniature counter+bitmap allocator, unbounded threads, all schedules. *)
From Coq Require Import List Arith Lia Bool.
Import ListNotations.

(* ---------- bit vector as list bool ---------- *)
Fixpoint upd {A} (l : list A) (i : nat) (x : A) : list A :=
  match l, i with
  | [], _ => []
  | _ :: r, O => x :: r
  | a :: r, S j => a :: upd r j x
  end.
Fixpoint zeros (l : list bool) : nat :=
  match l with [] => 0 | b :: r => (if b then 0 else 1) + zeros r end.
Fixpoint first0 (l : list bool) : option nat :=
  match l with [] => None | b :: r => if b then option_map S (first0 r) else Some 0 end.

Lemma upd_length {A} (l : list A) i x : length (upd l i x) = length l.
Proof. revert i; induction l; destruct i; simpl; auto. Qed.
Lemma nth_upd_same {A} (l : list A) i x d : i < length l -> nth i (upd l i x) d = x.
Proof. revert i; induction l; destruct i; simpl; intros; try lia; auto. apply IHl; lia. Qed.
Lemma nth_upd_other {A} (l : list A) i j x d : i <> j -> nth j (upd l i x) d = nth j l d.
Proof. revert i j; induction l; destruct i, j; simpl; intros; try lia; auto. Qed.
Lemma zeros_set l i : i < length l -> nth i l true = false -> zeros (upd l i true) + 1 = zeros l.
Proof. revert i; induction l as [|b r IH]; destruct i; simpl; intros Hi Hn; try lia.
  - subst. lia. - specialize (IH i ltac:(lia) Hn). destruct b; lia. Qed.
Lemma zeros_clear l i : i < length l -> nth i l false = true -> zeros (upd l i false) = zeros l + 1.
Proof. revert i; induction l as [|b r IH]; destruct i; simpl; intros Hi Hn; try lia.
  - subst. lia. - specialize (IH i ltac:(lia) Hn). destruct b; lia. Qed.
Lemma first0_spec l i : first0 l = Some i -> i < length l /\ nth i l true = false.
Proof. revert i; induction l as [|b r IH]; simpl; intros i H; [discriminate|].
  destruct b; [|inversion H; subst; simpl; split; [lia|auto]].
  destruct (first0 r) eqn:E; simpl in H; inversion H; subst. destruct (IH _ eq_refl). simpl. split; [lia|auto]. Qed.

(* ---------- machine ---------- *)
Inductive pc :=
| Idle
| GLoadC | GCasC (v : nat)
| GLoadR | GCasR (e : list bool) (i : nat)
| GUndoL | GUndoC (v : nat)
| PLoadR (f : nat) | PCasR (f : nat) (e : list bool)
| PIncL | PIncC (v : nat)
| Panicked.

Record st := { cnt : nat; row : list bool; pool : list pc; held : list nat; log : list (option nat) }.

Inductive choice := CGet | CPut (f : nat).

Definition setp (s : st) (t : nat) (p : pc) : st :=
  {| cnt := cnt s; row := row s; pool := upd (pool s) t p; held := held s; log := log s |}.
Definition with_cnt (s : st) c := {| cnt := c; row := row s; pool := pool s; held := held s; log := log s |}.
Definition with_row (s : st) r := {| cnt := cnt s; row := r; pool := pool s; held := held s; log := log s |}.
Definition with_held (s : st) h := {| cnt := cnt s; row := row s; pool := pool s; held := h; log := log s |}.

Fixpoint remove1 (x : nat) (l : list nat) : list nat :=
  match l with [] => [] | y :: r => if Nat.eqb x y then r else y :: remove1 x r end.

(* one step of thread t; [ch] only matters when idle *)
Definition step (s : st) (t : nat) (ch : choice) : st :=
  match nth t (pool s) Panicked with
  | Idle => match ch with
            | CGet => setp s t GLoadC
            | CPut f => if existsb (Nat.eqb f) (held s)
                        then setp (with_held s (remove1 f (held s))) t (PLoadR f)
                        else s      (* ill-behaved: not allowed *)
            end
  | GLoadC => let v := cnt s in if v =? 0 then setp s t Idle (* Err Memory *) else setp s t (GCasC v)
  | GCasC v => if cnt s =? v then setp (with_cnt s (v - 1)) t GLoadR
               else let v' := cnt s in if v' =? 0 then setp s t Idle else setp s t (GCasC v')
  | GLoadR => let e := row s in
              match first0 e with Some i => setp s t (GCasR e i) | None => setp s t GUndoL end
  | GCasR e i => if list_eq_dec Bool.bool_dec (row s) e
                 then setp (with_held (with_row s (upd e i true)) (i :: held s)) t Idle   (* Ok i *)
                 else let e' := row s in
                      match first0 e' with Some i' => setp s t (GCasR e' i') | None => setp s t GUndoL end
  | GUndoL => setp s t (GUndoC (cnt s))
  | GUndoC v => if cnt s =? v then setp (with_cnt s (v + 1)) t Idle else setp s t (GUndoC (cnt s))
  | PLoadR f => let e := row s in
                if nth f e false then setp s t (PCasR f e) else setp s t Panicked (* free of held failed *)
  | PCasR f e => if list_eq_dec Bool.bool_dec (row s) e
                 then setp (with_row s (upd e f false)) t PIncL
                 else let e' := row s in
                      if nth f e' false then setp s t (PCasR f e') else setp s t Panicked
  | PIncL => setp s t (PIncC (cnt s))
  | PIncC v => if cnt s =? v then setp (with_cnt s (v + 1)) t Idle else setp s t (PIncC (cnt s))
  | Panicked => s
  end.

Definition run (sch : list (nat * choice)) (s : st) : st :=
  fold_left (fun s tc => step s (fst tc) (snd tc)) sch s.

(* ---------- ghost read off the pcs; everything is a sum over the pool ---------- *)
Definition sumf (f : pc -> nat) (l : list pc) := fold_right (fun p a => f p + a) 0 l.
Definition pend (p : pc) : nat :=
  match p with GLoadR | GCasR _ _ | GUndoL | GUndoC _ | PIncL | PIncC _ => 1 | _ => 0 end.
Definition frc (i : nat) (p : pc) : nat :=
  match p with PLoadR f | PCasR f _ => if Nat.eqb f i then 1 else 0 | _ => 0 end.
Definition isPanic (p : pc) : nat := match p with Panicked => 1 | _ => 0 end.
Definition cnt_in (i : nat) (l : list nat) := count_occ Nat.eq_dec l i.
Definition b2n (b : bool) := if b then 1 else 0.
Definition W (s : st) := length (row s).

Definition local_ok (w : nat) (p : pc) : Prop :=
  match p with
  | GCasC v => 1 <= v
  | GCasR e i => length e = w /\ i < w /\ nth i e true = false
  | PLoadR f => f < w
  | PCasR f e => length e = w /\ f < w /\ nth f e false = true
  | _ => True
  end.

Record Inv (s : st) : Prop := {
  I_cnt : cnt s + sumf pend (pool s) = zeros (row s);
  I_own : forall i, (if i <? W s then b2n (nth i (row s) false) else 0)
                    = cnt_in i (held s) + sumf (frc i) (pool s);
  I_nopanic : sumf isPanic (pool s) = 0;
  I_local : Forall (local_ok (W s)) (pool s)
}.

Lemma sumf_upd f l t p d : t < length l ->
  sumf f (upd l t p) + f (nth t l d) = sumf f l + f p.
Proof. revert t; induction l as [|a r IH]; destruct t; simpl; intros H; try lia.
  specialize (IH t ltac:(lia)). lia. Qed.
Lemma sumf_ge f l t d : t < length l -> f (nth t l d) <= sumf f l.
Proof. revert t; induction l as [|a r IH]; destruct t; simpl; intros H; try lia.
  specialize (IH t ltac:(lia)). lia. Qed.
Lemma nth_oob_panic (l : list pc) t : length l <= t -> nth t l Panicked = Panicked.
Proof. intros; now apply nth_overflow. Qed.
Lemma cnt_remove1 f h i : existsb (Nat.eqb f) h = true ->
  cnt_in i (remove1 f h) + (if Nat.eqb f i then 1 else 0) = cnt_in i h.
Proof. unfold cnt_in. induction h as [|y r IH]; simpl; intros H; [discriminate|].
  destruct (Nat.eqb_spec f y) as [->|Hne].
  - destruct (Nat.eq_dec y i), (Nat.eqb_spec y i); try lia; congruence.
  - simpl in H. specialize (IH H). simpl. destruct (Nat.eq_dec y i); lia. Qed.

(* bit-level facts in the [b2n] vocabulary *)
Lemma b2n_nth_upd l i j x : i < length l ->
  b2n (nth j (upd l i x) false) + (if Nat.eqb i j then b2n (nth i l false) else 0)
  = b2n (nth j l false) + (if Nat.eqb i j then b2n x else 0).
Proof. intros Hi. destruct (Nat.eqb_spec i j) as [->|Hne].
  - rewrite nth_upd_same by assumption. lia.
  - rewrite nth_upd_other by assumption. lia. Qed.


Lemma Forall_upd {A} (P : A -> Prop) l t x : Forall P l -> P x -> Forall P (upd l t x).
Proof. intros H; revert t; induction H; destruct t; simpl; intros; constructor; auto. Qed.
Lemma Forall_nth_d {A} (P : A -> Prop) l t d : Forall P l -> t < length l -> P (nth t l d).
Proof. intros H; revert t; induction H; destruct t; simpl; intros; try lia; auto. apply IHForall; lia. Qed.

Ltac use_upd U E f p' :=
  let H := fresh "HU" in
  pose proof (U f p') as H; try rewrite E in H; simpl in H.

(* a step that changes neither memory nor ghost: only this thread's pc *)
Ltac solve_plain U E p' Hc Ho Hp Hl :=
  constructor; simpl;
  [ use_upd U E pend p'; lia
  | let i := fresh "i" in intro i; use_upd U E (frc i) p'; specialize (Ho i); simpl in Ho; unfold W in *; simpl; lia
  | use_upd U E isPanic p'; lia
  | apply Forall_upd; [exact Hl | simpl; auto] ].

Lemma step_inv s t ch : Inv s -> Inv (step s t ch).
Proof.
  intros [Hc Ho Hp Hl].
  destruct (Nat.lt_ge_cases t (length (pool s))) as [Ht|Ht].
  2:{ unfold step. rewrite nth_oob_panic by assumption. now constructor. }
  pose proof (fun f p' => sumf_upd f (pool s) t p' Panicked Ht) as U.
  pose proof (fun f => sumf_ge f (pool s) t Panicked Ht) as G.
  pose proof (Forall_nth_d _ _ t Panicked Hl Ht) as L.
  unfold step; cbv zeta.
  destruct (nth t (pool s) Panicked) eqn:E; simpl in L.
  - (* Idle *)
    destruct ch as [|f].
    + solve_plain U E GLoadC Hc Ho Hp Hl.
    + destruct (existsb (Nat.eqb f) (held s)) eqn:Ex; [|now constructor].
      constructor; simpl.
      * use_upd U E pend (PLoadR f); lia.
      * intro i. use_upd U E (frc i) (PLoadR f). specialize (Ho i). unfold W in *; simpl.
        pose proof (cnt_remove1 f (held s) i Ex). lia.
      * use_upd U E isPanic (PLoadR f); lia.
      * apply Forall_upd; [exact Hl|]. simpl.
        (* f is held, hence in range: from I_own at i = f *)
        specialize (Ho f). pose proof (cnt_remove1 f (held s) f Ex) as R. rewrite Nat.eqb_refl in R.
        unfold W in *. destruct (f <? length (row s)) eqn:Lt; [apply Nat.ltb_lt in Lt; exact Lt | lia].
  - (* GLoadC *)
    destruct (cnt s =? 0) eqn:Z0; [solve_plain U E Idle Hc Ho Hp Hl | apply Nat.eqb_neq in Z0; solve_plain U E (GCasC (cnt s)) Hc Ho Hp Hl; lia].
  - (* GCasC *)
    destruct (cnt s =? v) eqn:Z; [apply Nat.eqb_eq in Z; subst v|apply Nat.eqb_neq in Z].
    + constructor; simpl.
      * use_upd U E pend GLoadR. lia.
      * intro i; use_upd U E (frc i) GLoadR; specialize (Ho i); unfold W in *; simpl in *; lia.
      * use_upd U E isPanic GLoadR; lia.
      * apply Forall_upd; [exact Hl | simpl; auto].
    + destruct (cnt s =? 0) eqn:Z0; [solve_plain U E Idle Hc Ho Hp Hl | apply Nat.eqb_neq in Z0; solve_plain U E (GCasC (cnt s)) Hc Ho Hp Hl; lia].
  - (* GLoadR *)
    destruct (first0 (row s)) as [i0|] eqn:F.
    + apply first0_spec in F. solve_plain U E (GCasR (row s) i0) Hc Ho Hp Hl; try (unfold W; tauto).
    + solve_plain U E GUndoL Hc Ho Hp Hl.
  - (* GCasR e i : the linearisation point of a successful get *)
    destruct L as (Le & Li & Lz).
    destruct (list_eq_dec bool_dec (row s) e) as [<-|Hne].
    + constructor; simpl.
      * use_upd U E pend Idle. pose proof (zeros_set (row s) i ltac:(unfold W in *; lia) Lz). lia.
      * intro j. use_upd U E (frc j) Idle. specialize (Ho j). unfold W in *; simpl in *.
        rewrite upd_length.
        pose proof (b2n_nth_upd (row s) i j true ltac:(lia)) as B.
        assert (Lz' : nth i (row s) false = false).
        { rewrite <- Lz. apply nth_indep. lia. }
        rewrite Lz' in B. unfold cnt_in in *. simpl.
        destruct (Nat.eq_dec i j) as [->|Hij].
        -- rewrite Nat.eqb_refl in B. destruct (j <? length (row s)) eqn:Lt; [|apply Nat.ltb_ge in Lt; lia]. simpl in B. lia.
        -- destruct (Nat.eqb_spec i j); [congruence|]. destruct (j <? length (row s)); lia.
      * use_upd U E isPanic Idle; lia.
      * unfold W in *; simpl. rewrite upd_length. apply Forall_upd; [exact Hl | simpl; auto].
    + destruct (first0 (row s)) as [i0|] eqn:F.
      * apply first0_spec in F. solve_plain U E (GCasR (row s) i0) Hc Ho Hp Hl; try (unfold W; tauto).
      * solve_plain U E GUndoL Hc Ho Hp Hl.
  - (* GUndoL *) solve_plain U E (GUndoC (cnt s)) Hc Ho Hp Hl.
  - (* GUndoC *)
    destruct (cnt s =? v) eqn:Z; [apply Nat.eqb_eq in Z; subst v|apply Nat.eqb_neq in Z].
    + constructor; simpl.
      * use_upd U E pend Idle. lia.
      * intro i; use_upd U E (frc i) Idle; specialize (Ho i); unfold W in *; simpl in *; lia.
      * use_upd U E isPanic Idle; lia.
      * apply Forall_upd; [exact Hl | simpl; auto].
    + solve_plain U E (GUndoC (cnt s)) Hc Ho Hp Hl.
  - (* PLoadR f : the bit of a block being freed is set, so no panic *)
    assert (Hbit : nth f (row s) false = true).
    { specialize (Ho f). pose proof (G (frc f)) as Gf. simpl in Gf. rewrite Nat.eqb_refl in Gf.
      unfold W in *. destruct (f <? length (row s)) eqn:Lt; [|apply Nat.ltb_ge in Lt; lia].
      destruct (nth f (row s) false); simpl in *; [reflexivity|lia]. }
    rewrite Hbit. solve_plain U E (PCasR f (row s)) Hc Ho Hp Hl; try (unfold W; tauto).
  - (* PCasR f e *)
    destruct L as (Le & Lf & Lb).
    assert (Hbit : nth f (row s) false = true).
    { specialize (Ho f). pose proof (G (frc f)) as Gf. simpl in Gf. rewrite Nat.eqb_refl in Gf.
      unfold W in *. destruct (f <? length (row s)) eqn:Lt; [|apply Nat.ltb_ge in Lt; lia].
      destruct (nth f (row s) false); simpl in *; [reflexivity|lia]. }
    destruct (list_eq_dec bool_dec (row s) e) as [<-|Hne].
    + constructor; simpl.
      * use_upd U E pend PIncL. pose proof (zeros_clear (row s) f ltac:(unfold W in *; lia) Hbit). lia.
      * intro j. use_upd U E (frc j) PIncL. specialize (Ho j). unfold W in *; simpl in *.
        rewrite upd_length.
        pose proof (b2n_nth_upd (row s) f j false ltac:(lia)) as B. rewrite Hbit in B. simpl in B.
        destruct (Nat.eqb_spec f j) as [->|Hfj]; destruct (j <? length (row s)) eqn:Lt; try lia;
        try (apply Nat.ltb_ge in Lt; lia).
      * use_upd U E isPanic PIncL; lia.
      * unfold W in *; simpl. rewrite upd_length. apply Forall_upd; [exact Hl | simpl; auto].
    + rewrite Hbit. solve_plain U E (PCasR f (row s)) Hc Ho Hp Hl; try (unfold W; tauto).
  - (* PIncL *) solve_plain U E (PIncC (cnt s)) Hc Ho Hp Hl.
  - (* PIncC *)
    destruct (cnt s =? v) eqn:Z; [apply Nat.eqb_eq in Z; subst v|apply Nat.eqb_neq in Z].
    + constructor; simpl.
      * use_upd U E pend Idle. lia.
      * intro i; use_upd U E (frc i) Idle; specialize (Ho i); unfold W in *; simpl in *; lia.
      * use_upd U E isPanic Idle; lia.
      * apply Forall_upd; [exact Hl | simpl; auto].
    + solve_plain U E (PIncC (cnt s)) Hc Ho Hp Hl.
  - (* Panicked: impossible *)
    pose proof (G isPanic) as Gp. simpl in Gp. lia.
Qed.

Lemma run_inv sch : forall s, Inv s -> Inv (run sch s).
Proof. induction sch as [|[t ch] r IH]; simpl; intros s H; [exact H|]. apply IH, step_inv, H. Qed.

Definition boot (w nthreads : nat) : st :=
  {| cnt := w; row := repeat false w; pool := repeat Idle nthreads; held := []; log := [] |}.

Lemma zeros_repeat w : zeros (repeat false w) = w.
Proof. induction w; simpl; lia. Qed.
Lemma sumf_repeat_idle f n : f Idle = 0 -> sumf f (repeat Idle n) = 0.
Proof. intros H; induction n; simpl; lia. Qed.
Lemma nth_repeat_false i w : nth i (repeat false w) false = false.
Proof. revert i; induction w; destruct i; simpl; auto. Qed.

Lemma boot_inv w n : Inv (boot w n).
Proof.
  constructor; simpl.
  - rewrite zeros_repeat, sumf_repeat_idle by reflexivity. lia.
  - intro i. unfold W; simpl. rewrite nth_repeat_false, sumf_repeat_idle by reflexivity.
    destruct (i <? _); reflexivity.
  - apply sumf_repeat_idle; reflexivity.
  - apply Forall_forall. intros p Hp. apply repeat_spec in Hp. subst. exact I.
Qed.

Lemma step_W s t ch : Inv s -> W (step s t ch) = W s.
Proof.
  intros [Hc Ho Hp Hl].
  destruct (Nat.lt_ge_cases t (length (pool s))) as [Ht|Ht].
  2:{ unfold step. rewrite nth_oob_panic by assumption. reflexivity. }
  pose proof (Forall_nth_d _ _ t Panicked Hl Ht) as L.
  unfold step, W; cbv zeta.
  destruct (nth t (pool s) Panicked) eqn:E; simpl in L;
  repeat match goal with
  | |- context [match ?x with _ => _ end] => destruct x; simpl; subst; rewrite ?upd_length; auto
  end; try tauto.
Qed.

Lemma run_W sch : forall s, Inv s -> W (run sch s) = W s.
Proof. induction sch as [|[t ch] r IH]; simpl; intros s H; [reflexivity|].
  rewrite IH by (apply step_inv, H). apply step_W, H. Qed.

(* The C01-shaped statement: for every width, every number of threads, every schedule,
   the blocks handed out and not yet freed are pairwise distinct and in range; and
   the C03-shaped one: no thread ever panics (so every free of a held frame succeeds). *)
Theorem mini_safe w n sch :
  let s := run sch (boot w n) in
  NoDup (held s) /\ (forall f, In f (held s) -> f < w) /\ ~ In Panicked (pool s).
Proof.
  intros s. assert (H : Inv s) by (apply run_inv, boot_inv).
  assert (HW : W s = w).
  { unfold s. rewrite run_W by apply boot_inv. unfold W, boot; simpl. apply repeat_length. }
  destruct H as [Hc Ho Hp Hl].
  assert (Hle : forall i, cnt_in i (held s) <= (if i <? w then 1 else 0)).
  { intro i. specialize (Ho i). rewrite HW in Ho. destruct (i <? w); [|lia].
    destruct (nth i (row s) false); simpl in Ho; lia. }
  split; [|split].
  - apply (NoDup_count_occ Nat.eq_dec). intro i. specialize (Hle i). unfold cnt_in in Hle.
    destruct (i <? w); lia.
  - intros f Hf. apply (count_occ_In Nat.eq_dec) in Hf. specialize (Hle f). unfold cnt_in in Hle.
    destruct (f <? w) eqn:Lt; [apply Nat.ltb_lt in Lt; exact Lt | lia].
  - intro Hin. clear -Hp Hin. induction (pool s) as [|p r IH]; simpl in *; [tauto|].
    destruct Hin as [->|Hin]; simpl in *; [lia|]. apply IH; [lia|exact Hin].
Qed.
Print Assumptions mini_safe.

(* non-vacuity: a schedule where two threads race for the same bit; the loser retries *)
Example race :
  let s := run [(0,CGet);(1,CGet);(0,CGet);(1,CGet);(0,CGet);(1,CGet);(0,CGet);(1,CGet);(0,CGet);(1,CGet);(1,CGet)] (boot 4 2) in
  held s = [1; 0] /\ cnt s = 2.
Proof. vm_compute. split; reflexivity. Qed.
